#!/bin/sh
# tools/seeded_matrix.sh [dir ...]   run every seeded change (default: all of
# /verif/seeded/*) against the check(s) of the property it breaks, one line
# per (change, check). Uses scratch worktrees; /repo itself is not touched.
here=$(cd "$(dirname "$0")/.." && pwd)
[ $# -gt 0 ] || set -- "$here"/seeded/*/
for d in "$@"; do
	d=${d%/}
	[ -f "$d/patch.diff" ] || continue
	props=$(python3 -c "import json,sys; m=json.load(open('$d/meta.json')); print(' '.join(m.get('checks') or [m['property']]))")
	echo "== $(basename "$d")  ($props)"
	"$here/tools/trymut.sh" "$d/patch.diff" $props 2>&1 | cut -c1-260
done
