#!/bin/sh
# tools/adopt_seed.sh <agent-outdir> <k> <seed-id> <property> "<checks>"
# Confirms a seeded change in a scratch worktree (applies to HEAD, builds,
# repository suite passes, demonstration fails WITH the change and passes
# WITHOUT it) and stores it under /verif/seeded/<seed-id>/.
set -u
out=$1; k=$2; id=$3; prop=$4; checks=$5
here=$(cd "$(dirname "$0")/.." && pwd)
export GOFLAGS=-mod=mod GOPROXY=off GOSUMDB=off GOTOOLCHAIN=local
patch="$out/m$k.diff"; demo="$out/m${k}_demo_test.go"
[ -f "$patch" ] && [ -f "$demo" ] || { echo "missing files for $id"; exit 2; }
cmd=$(grep -m1 -o 'go test .*' "$demo" | sed 's/`.*//; s/[[:space:]]*$//')
[ -n "$cmd" ] || { echo "no demo command in $demo"; exit 2; }
wt=$(mktemp -d /root/scratch/adopt.XXXXXX); rmdir "$wt"
git -C /repo worktree add -q --detach "$wt" HEAD || exit 2
trap 'git -C /repo worktree remove --force "$wt" >/dev/null 2>&1; rm -rf "$wt"' EXIT INT TERM
cp "$demo" "$wt/zz_demo_${k}_test.go"
clean=$( (cd "$wt" && timeout 600 sh -c "$cmd") >"$wt/.clean.log" 2>&1; echo $?)
git -C "$wt" apply "$patch" || { echo "$id: PATCH DOES NOT APPLY"; exit 3; }
mv "$wt/zz_demo_${k}_test.go" "$wt/.demo.hold"
suite=$( (cd "$wt" && go build ./... && go test -vet=off -count=1 ./...) >"$wt/.suite.log" 2>&1; echo $?)
mv "$wt/.demo.hold" "$wt/zz_demo_${k}_test.go"
with=$( (cd "$wt" && timeout 600 sh -c "$cmd") >"$wt/.with.log" 2>&1; echo $?)
echo "$id: demo on clean tree rc=$clean (want 0), suite with change rc=$suite (want 0), demo with change rc=$with (want !=0)"
if [ "$clean" = 0 ] && [ "$suite" = 0 ] && [ "$with" != 0 ]; then
	d="$here/seeded/$id"; mkdir -p "$d"
	cp "$patch" "$d/patch.diff"; cp "$demo" "$d/demo_test.go"; [ -f "$out/m$k.md" ] && cp "$out/m$k.md" "$d/description.md"
	python3 - "$d" "$id" "$prop" "$checks" "$cmd" <<'PY'
import json,sys
d,id_,prop,checks,cmd=sys.argv[1:6]
desc=open(d+'/description.md').read() if __import__('os').path.exists(d+'/description.md') else ''
json.dump({"id":id_,"property":prop,"checks":checks.split(),"source":"independent sub-agent (saw only the property text and its own worktree)",
 "needs_to_manifest":desc.strip(),
 "confirmed":{"applies_to":"/repo HEAD at adoption time","repository_suite_with_change":"go build ./... && go test -vet=off -count=1 ./...  -> pass",
   "demo_command":cmd,"demo_on_clean_tree":"pass","demo_with_change":"fail"}},open(d+'/meta.json','w'),indent=1)
PY
	echo "$id: adopted"
else
	echo "$id: NOT adopted"; tail -5 "$wt/.with.log" "$wt/.clean.log" "$wt/.suite.log" | cut -c1-200
fi
