#!/bin/sh
# tools/soak.sh <seconds per check> <seed>...: thorough tier of every check
# for each seed on the unchanged tree; prints one line per run.
here=$(cd "$(dirname "$0")/.." && pwd)
secs=$1; shift
for s in "$@"; do
	for p in C05 C06 C07 C19 C20; do
		out=$(cd "$here" && VERIF_SEED=$s VERIF_BUDGET_S=$secs ./check $p thorough 2>&1); rc=$?
		echo "seed $s $p rc=$rc: $(echo "$out" | grep -v '^  ' | tail -2 | tr '\n' ' ' | cut -c1-500)"
	done
done
