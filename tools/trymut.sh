#!/bin/sh
# tools/trymut.sh <patch.diff> <property ids...>
# Applies a seeded change to a scratch worktree of /repo's HEAD, confirms that
# the repository still builds and passes its test suite with the guard off,
# runs the given checks against that tree (VERIF_REPO), and removes the
# worktree. Prints one line per check: CAUGHT / MISSED / INFRA.
set -u
patch=$(readlink -f "$1"); shift
here=$(cd "$(dirname "$0")/.." && pwd)
export GOFLAGS=-mod=mod GOPROXY=off GOSUMDB=off GOTOOLCHAIN=local
wt=$(mktemp -d /root/scratch/mut.XXXXXX)
rmdir "$wt"
git -C /repo worktree add -q --detach "$wt" HEAD || exit 2
trap 'git -C /repo worktree remove --force "$wt" >/dev/null 2>&1; rm -rf "$wt"' EXIT INT TERM
if ! git -C "$wt" apply "$patch"; then echo "PATCH-FAILED $patch"; exit 2; fi
if ! (cd "$wt" && go build ./... && go test -vet=off -count=1 ./... >"$wt/.test.log" 2>&1); then
	echo "TESTS-FAIL (the change does not pass the repository's suite)"; tail -5 "$wt/.test.log"; exit 3
fi
for id in "$@"; do
	tier=${TIER:-quick}
	out=$(cd "$here" && VERIF_REPO="$wt" VERIF_TMP=/root/scratch ./check "$id" "$tier" 2>&1); rc=$?
	case $rc in
	1) echo "CAUGHT $id: $(echo "$out" | grep -A1 '^VIOLATION' | grep class= | head -3 | tr '\n' ' ' | cut -c1-400)";;
	0) echo "MISSED $id: $(echo "$out" | tail -1)";;
	*) echo "INFRA  $id (rc=$rc): $(echo "$out" | grep INFRA | head -3 | cut -c1-300)";;
	esac
done
# evidence files written by these runs describe the mutated tree: restore them
(cd "$here" && git checkout -q -- evidence 2>/dev/null; rm -f replays/*.json)
