#!/bin/sh
# tools/sweep.sh <first> <last> [tier]: run every check once per VERIF_SEED in
# the range on the unchanged tree and print one line per (seed, check) that
# did not exit 0 - there must be none.
here=$(cd "$(dirname "$0")/.." && pwd)
tier=${3:-quick}
bad=0
for s in $(seq "$1" "$2"); do
	for p in C05 C06 C07 C19 C20; do
		out=$(cd "$here" && VERIF_SEED=$s ./check $p $tier 2>&1); rc=$?
		if [ $rc != 0 ]; then bad=$((bad+1)); echo "seed $s $p rc=$rc: $(echo "$out" | grep -v '^  ' | tail -3 | tr '\n' ' ' | cut -c1-400)"; fi
	done
	echo "seed $s done"
done
echo "sweep finished: $bad non-zero exits"
