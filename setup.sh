#!/bin/sh
# Run once after a fresh restore, offline: warm the Go build caches (race
# std for the default toolchain and for go1.26.8) and prove that the
# worker binaries (hook and auto-yield) and the driver build from files on disk.
set -u
here=$(cd "$(dirname "$0")" && pwd)
export GOFLAGS=-mod=mod GOPROXY=off GOSUMDB=off GOTOOLCHAIN=local
tmp=$(mktemp -d "${TMPDIR:-/tmp}/verif-setup.XXXXXX") || exit 2
trap 'rm -rf "$tmp"' EXIT INT TERM
cd "$here/sim" || exit 2
go build -tags verif -o "$tmp/driver" ./cmd/driver || exit 2
go build -tags verif -o "$tmp/worker" ./cmd/worker || exit 2
go build -race -tags verif -o "$tmp/worker-race" ./cmd/worker || exit 2
go1.26.8 test -c -race -tags verif -o "$tmp/workerb.test" ./cmd/workerb || exit 2
go run ./cmd/instrument /repo "$tmp/repo-inst" >/dev/null || exit 2
sed "s#=> /repo#=> $tmp/repo-inst#" go.mod > "$tmp/auto.mod" && cp go.sum "$tmp/auto.sum"
go build -modfile="$tmp/auto.mod" -race -tags "verif autoyield" -o "$tmp/worker-race-auto" ./cmd/worker || exit 2
go build -modfile="$tmp/auto.mod" -tags "verif autoyield" -o "$tmp/worker-auto" ./cmd/worker || exit 2
go1.26.8 test -modfile="$tmp/auto.mod" -c -race -tags "verif autoyield" -o "$tmp/workerb-auto.test" ./cmd/workerb || exit 2
echo "setup ok"
