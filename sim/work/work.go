// Package work generates the simulated workloads: JSON documents whose
// correct results differ per task, and JSONata programs drawn from a typed
// template grammar organised in families (a family = one shared-state or
// fault surface).
//
// Excluded by construction (DESIGN.md 2.7): order-sensitive consumers of
// objects with more than one member, object constructors with more than one
// non-literal member, raw $random/$shuffle/$now/$millis values, unbounded
// recursion, large ranges/pads, $formatNumber exponent pictures.
package work

import (
	"fmt"
	"strings"

	"github.com/blues/jsonata-go/jparse"

	"verif/sim/engine"
)

// DocJSON returns the document of task i. Every member depends on i so that
// a context item leaked from another task shows in the outcome.
func DocJSON(i int, variant int) string {
	base := fmt.Sprintf(`{"id":%d,"name":"t%dzq","n":%d,"nums":[%d,2,3,%d],"s":["b%d","a%d","c%d"],`+
		`"one":{"k":"v%d"},"items":[{"p":"x%dz1","q":%d},{"p":"y%dz2","q":%d}],`+
		`"nest":{"c":"z%dXq"},"txt":" a  b%d ","dups":["a","a","b%d","a","c","b%d"],`+
		// arrays inside the members of an array: one path step then yields
		// several of the caller's arrays
		`"groups":[{"g":"a","rows":[%d,2,3],"tags":["t%d"]},{"g":"b","rows":[4],"tags":[]},{"g":"a","rows":[5,6],"tags":["u","v","w"]}]`,
		i, i, i+1, i, i+10, i, i, i, i, i, i, i, i+1, i, i, i, i, i, i)
	// the same paths hold values of different kinds in different documents
	switch i % 3 {
	case 0:
		base += fmt.Sprintf(`,"poly":%d,"mixed":[{"v":%d},{"v":1},{"v":7}]`, i+2, i+3)
	case 1:
		base += fmt.Sprintf(`,"poly":"p%d","mixed":[{"v":"m%d"},{"v":"a"},{"v":"z"}]`, i, i)
	default:
		base += fmt.Sprintf(`,"poly":[%d,"x"],"mixed":[{"v":%d},{"w":1}]`, i, i)
	}
	switch variant % 3 {
	case 1:
		base += `,"nil":null,"e":{},"ea":[],"metas":[{},{"a":1},{}]`
	case 2:
		base += `,"deep":{"one":{"k":"d` + fmt.Sprint(i) + `"}},"flag":true,"matrix":[[` + fmt.Sprint(i) + `,2],[3,4,5],[]]`
	}
	return base + "}"
}

// Program is one generated program.
type Program struct {
	Text   string
	Family string
}

// Gen generates programs from one PRNG stream.
type Gen struct {
	R *engine.RNG
	// Ext enables the harness-extension productions ($xid, $xctx, $xfault,
	// $xundef), which require the harness extensions to be registered.
	Ext bool
}

func (g *Gen) pick(xs ...string) string { return xs[g.R.Intn(len(xs))] }

func (g *Gen) alt(d int, leaves []func() string, nodes []func(d int) string) string {
	if d <= 0 || g.R.Chance(1, 3) {
		return leaves[g.R.Intn(len(leaves))]()
	}
	return nodes[g.R.Intn(len(nodes))](d - 1)
}

func lit(s ...string) []func() string {
	r := make([]func() string, len(s))
	for i := range s {
		v := s[i]
		r[i] = func() string { return v }
	}
	return r
}

// Str returns a string-valued expression.
func (g *Gen) Str(d int) string {
	leaves := lit(`name`, `nest.c`, `txt`, `one.k`, `items[0].p`, `s[1]`, `"lit"`, `"a z b"`,
		// Go structs in typed documents (undefined elsewhere). No $keys /
		// $each / ** over them: inside a transform the struct has become a
		// map (the clone goes through JSON) and its member order is Go's
		`rec.P`, `rec.Sub.P`, `val.P`, `recs[1].P`, `rec.In.c`, `$string(rec.Q)`, `rec.Tags[0]`, `$join(recs.P, "-")`,
		`name.$uppercase()`, `nest.c.$substringAfter("X")`, `name.$substringBefore("z")`,
		`name.$pad(8,"-")`, `name.$substring(1,2)`, `txt.$trim()`, `n.$string()`, `name.$lowercase()`,
		`n.$formatNumber("000")`, `n.$formatBase(2)`, `n.$type()`, `one.$lookup("k")`, `id.$fromMillis()`,
		`name.$base64encode()`, `name.$replace("z","Z")`, `name.$encodeUrlComponent()`,
		`name.$substringBefore($$.nest.c.$substringAfter("X"))`)
	nodes := []func(d int) string{
		func(d int) string { return `$uppercase(` + g.Str(d) + `)` },
		func(d int) string { return `$lowercase(` + g.Str(d) + `)` },
		func(d int) string { return `$trim(` + g.Str(d) + `)` },
		func(d int) string {
			return `$substring(` + g.Str(d) + `, ` + g.pick("0", "1", "-2") + `, ` + g.pick("1", "2", "5") + `)`
		},
		func(d int) string { return `$substringBefore(` + g.Str(d) + `, "z")` },
		func(d int) string { return `$substringAfter(` + g.Str(d) + `, "z")` },
		func(d int) string { return `$pad(` + g.Str(d) + `, ` + g.pick("8", "-8", "3") + `, "-")` },
		func(d int) string { return `$replace(` + g.Str(d) + `, "z", "Z")` },
		func(d int) string { return `$replace(` + g.Str(d) + `, /\d/, "#")` },
		func(d int) string { return `$replace(` + g.Str(d) + `, /(\d+)/, "<$1>")` },
		func(d int) string { return `$replace(` + g.Str(d) + `, /\d/, function($m){$m.match & "!"})` },
		func(d int) string { return `$string(` + g.Num(d) + `)` },
		func(d int) string { return `$string(` + g.ArrN(d) + `)` },
		func(d int) string { return `$join(` + g.ArrS(d) + `, ",")` },
		func(d int) string { return `(` + g.Str(d) + ` & ` + g.Str(d) + `)` },
		func(d int) string {
			return `$formatNumber(` + g.Num(d) + `, ` + g.pick(`"000"`, `"#,##0.00"`, `"0.0"`) + `)`
		},
		func(d int) string { return `$formatBase($floor(` + g.Num(d) + `), ` + g.pick("2", "16") + `)` },
		func(d int) string { return `$base64decode($base64encode(` + g.Str(d) + `))` },
		func(d int) string { return `$decodeUrlComponent($encodeUrlComponent(` + g.Str(d) + `))` },
		func(d int) string { return `$encodeUrl(` + g.Str(d) + `)` },
		func(d int) string { return `$decodeUrl($encodeUrl(` + g.Str(d) + `))` },
		func(d int) string { return `$type(` + g.Any(d) + `)` },
		func(d int) string { return `$fromMillis(` + g.Num(d) + ` * 1000)` },
		func(d int) string { return `$fromMillis(` + g.Num(d) + ` * 86400000, "[Y0001]-[M01]-[D01]")` },
		func(d int) string { return `(` + g.Bool(d) + ` ? ` + g.Str(d) + ` : ` + g.Str(d) + `)` },
		func(d int) string { return `(` + g.Str(d) + ` ~> $uppercase())` },
		func(d int) string { return `(` + g.Str(d) + ` ~> $uppercase() ~> $pad(10))` },
		func(d int) string { return `(` + g.Str(d) + ` ~> $substringBefore("z"))` },
		// chains into a bare function value (no call syntax on the right)
		func(d int) string { return `(` + g.Str(d) + ` ~> $uppercase)` },
		func(d int) string { return `(` + g.Str(d) + ` ~> $trim ~> $uppercase ~> $lowercase)` },
		func(d int) string { return g.pick("name", "nest.c", "one.k") + `.("` + g.pick("z", "-", "q") + `" ~> $substringBefore)` },
		func(d int) string { return g.pick("name", "nest.c") + `.(` + g.pick("5", "8", "n") + ` ~> $pad)` },
		func(d int) string { return `(nosuch ~> ` + g.pick("$uppercase", "$string", "$xid", "$type") + `)` },
		func(d int) string { return `(` + g.Str(d) + ` ~> $pad(?, 9, "*"))` },
		func(d int) string { return g.pick("name", "nest.c") + `.$pad(?, "*")(` + g.pick("6", "n + 4") + `)` },
		// chains into calls of every arity (0..7 explicit arguments)
		func(d int) string { return `(` + g.Str(d) + ` ~> $pad(8, "-"))` },
		func(d int) string { return `(` + g.Str(d) + ` ~> $replace("z", "Z", 1))` },
		func(d int) string { return `(` + g.Str(d) + ` ~> $substring(0, 3) ~> $replace("t", "T", 1) ~> $pad(6, "."))` },
		func(d int) string {
			k := g.R.Range(0, 7)
			params, args, body := "$a", "", "$a"
			for i := 0; i < k; i++ {
				params += fmt.Sprintf(", $p%d", i)
				if i > 0 {
					args += ", "
				}
				args += fmt.Sprintf(`"%d"`, i)
				body += fmt.Sprintf(" & $p%d", i)
			}
			return `($f := function(` + params + `){` + body + `}; ` + g.Str(d) + ` ~> $f(` + args + `))`
		},
		func(d int) string { return `$substringBefore(?, "z")(` + g.Str(d) + `)` },
		func(d int) string { return `($p := $pad(?, 8, "-"); $p(` + g.Str(d) + `))` },
		// a built-in's name rebound locally, depending on the input
		func(d int) string {
			return `($uppercase := n > 1 ? function($x){"<" & $x & ">"} : $uppercase; $uppercase(` + g.Str(d) + `))`
		},
		func(d int) string {
			return `($string := id = 0 ? $string : function($x){"s" & $length($x)}; $string(` + g.Str(d) + `))`
		},
		func(d int) string { return `function($trim, $v){$trim($v)}(n > 2 ? $uppercase : $trim, ` + g.Str(d) + `)` },
		// a partial application that outlives the block in which it was made
		func(d int) string { return `(($q := n + 5; $pad(?, $q, "-")))(` + g.Str(d) + `)` },
		func(d int) string { return `($p := ($k := one.k; $replace(?, "z", $k)); ($k := "other"; $p(` + g.Str(d) + `)))` },
		// a variable read before (or without) being bound in this evaluation,
		// with assignments outside any block
		func(d int) string { return `[$exists($u) ? "stale" : "fresh", $u := ` + g.Str(d) + `][0]` },
		func(d int) string { return `$join([$string($exists($w)), $w := n > 1 ? name : nosuch], "/")` },
		func(d int) string { return `(n > 1 ? $t := "a" : $t2 := "b") & $string($exists($t)) & $string($exists($t2))` },
		// partial applications whose bound arguments depend on the input
		func(d int) string { return `$substring(?, 0, n)(` + g.Str(d) + `)` },
		func(d int) string { return `($p := $pad(?, n + 5, "-"); $p(` + g.Str(d) + `))` },
		func(d int) string { return `$substringBefore(?, nest.c.$substringAfter("X"))(` + g.Str(d) + `)` },
		func(d int) string { return `$replace(?, name.$substring(0, 1), one.k)(` + g.Str(d) + `)` },
		// the same picture under the default and under another decimal format
		func(d int) string {
			return `$formatNumber(` + g.Num(d) + `, ` + g.pick(`"000"`, `"#,##0.00"`, `"0.0"`, `"#.##0,00"`) + `, {"decimal-separator": ",", "grouping-separator": "."})`
		},
		func(d int) string {
			return `$formatNumber(` + g.Num(d) + `, ` + g.pick(`"#,##0.00"`, `"#.##0,00"`, `"0,0"`) + `)`
		},
		func(d int) string { return `$formatNumber(` + g.Num(d) + ` / 100, "0%", {"percent": "%"})` },
		func(d int) string { return `$formatNumber(` + g.Num(d) + `, "#0.0", {"zero-digit": "٠"})` },
		func(d int) string { return `function($x){$x & "!"}(` + g.Str(d) + `)` },
		func(d int) string { return `($f := $uppercase; $f(` + g.Str(d) + `))` },
		func(d int) string { return `($f := $uppercase ~> $lowercase; $f(` + g.Str(d) + `))` },
		func(d int) string {
			return `($g := function($x)<s-:s>{$x & "!"}; ` + g.pick("name", "nest.c", "one.k") + `.$g())`
		},
		func(d int) string { return `$match(` + g.Str(d) + `, /z/).match` },
		func(d int) string { return `/t(\d+)/(` + g.Str(d) + `).groups[0]` },
		func(d int) string { return `($a := ` + g.Str(d) + `; $b := ` + g.Num(d) + `; $a & $string($b))` },
		func(d int) string { return g.ArrS(d) + `[0]` },
		func(d int) string { return `$lookup(` + g.Obj(d) + `, "k")` },
		func(d int) string { return `(` + g.Obj(d) + `).k` },
	}
	if g.Ext {
		nodes = append(nodes,
			func(d int) string { return `$xid(` + g.Str(d) + `)` },
			func(d int) string { return g.pick("name", "nest.c", "one.k") + `.$xctx()` },
			func(d int) string { return `$xfault(` + g.Str(d) + `)` },
			func(d int) string { return `$xundef(` + g.pick("nosuch", "name") + `)` },
			func(d int) string { return `(` + g.Str(d) + ` ~> $xid())` },
		)
	}
	return g.alt(d, leaves, nodes)
}

// Num returns a number-valued expression.
func (g *Gen) Num(d int) string {
	leaves := lit(`n`, `id`, `nums[1]`, `items[1].q`, `2`, `7`, `0.5`, `name.$length()`, `n.$sqrt()`,
		`n.$abs()`, `"12".$number()`, `n.$power(2)`)
	nodes := []func(d int) string{
		func(d int) string { return `(` + g.Num(d) + ` ` + g.pick("+", "-", "*", "%") + ` ` + g.Num(d) + `)` },
		func(d int) string { return `(` + g.Num(d) + ` / ` + g.pick("2", "4", "n") + `)` },
		func(d int) string { return `$length(` + g.Str(d) + `)` },
		func(d int) string { return g.pick("$sum", "$max", "$min", "$average") + `(` + g.ArrN(d) + `)` },
		func(d int) string { return `$count(` + g.Any(d) + `)` },
		func(d int) string { return `$number($string(` + g.Num(d) + `))` },
		func(d int) string { return g.pick("$abs", "$floor", "$ceil", "$sqrt") + `(` + g.Num(d) + `)` },
		func(d int) string { return `$round(` + g.Num(d) + ` / 3, 2)` },
		func(d int) string { return `$power(` + g.Num(d) + `, 2)` },
		func(d int) string { return `(` + g.Num(d) + ` ~> $power(2))` },
		func(d int) string { return `(` + g.ArrN(d) + ` ~> $sum())` },
		func(d int) string { return `(` + g.ArrN(d) + ` ~> $sum() ~> $string() ~> $length())` },
		func(d int) string { return `$toMillis("2017-01-0` + g.pick("1", "2", "3") + `T00:00:00.000Z")` },
		func(d int) string { return `$toMillis($fromMillis(` + g.Num(d) + ` * 1000))` },
		// round trips through ever new pictures (anything that remembers
		// analysed pictures or layouts is filled and evicted)
		func(d int) string {
			comps := []string{"[Y0001]", "[M01]", "[D01]", "[H01]", "[m01]", "[s01]"}
			seps := []string{"-", "/", " ", ":", ".", "_", ", "}
			pic := ""
			for i, c := range comps {
				if i > 0 {
					pic += seps[g.R.Intn(len(seps))]
				}
				pic += c
			}
			return `$toMillis($fromMillis(1510067557000 + ` + g.Num(d) + ` * 1000, "` + pic + `"), "` + pic + `")`
		},
		func(d int) string { return `$reduce(` + g.ArrN(d) + `, function($a,$b){$a+$b})` },
		func(d int) string { return `$count($shuffle(` + g.ArrN(d) + `))` },
		func(d int) string { return `-(` + g.Num(d) + `)` },
		func(d int) string { return `($f := $sum; $f(` + g.ArrN(d) + `))` },
		func(d int) string {
			return `($f := function($n){$n <= 1 ? 1 : $n * $f($n-1)}; $f(` + g.pick("3", "4", "5") + `))`
		},
		func(d int) string { return `$single(` + g.ArrN(d) + `, function($v){$v = 2})` },
		func(d int) string { return g.ArrN(d) + `[` + g.pick("0", "1", "-1") + `]` },
		func(d int) string { return `$sum(**.q)` },
		func(d int) string { return `$count(` + g.pick("*", "**", "one.*", "nest.*") + `)` },
		func(d int) string { return `(` + g.Bool(d) + ` ? ` + g.Num(d) + ` : ` + g.Num(d) + `)` },
	}
	if g.Ext {
		nodes = append(nodes, func(d int) string { return `$xid(` + g.Num(d) + `)` })
	}
	return g.alt(d, leaves, nodes)
}

// ArrN returns an expression denoting an array of numbers.
func (g *Gen) ArrN(d int) string {
	leaves := lit(`nums`, `items.q`, `[1..3]`, `[3, 1, 2]`, `nums[$ > 1]`, `nums^(>$)`, `nums^($)`,
		// sort terms / comparisons over values whose kind differs between documents
		`mixed^(v).v`, `mixed^(>v).v`, `$sort(mixed.v)`, `mixed[v > 0].v`,
		// `page` is a sub-slice of `nums` in some documents (shared backing array)
		`page`, `$append(page, 99)`, `$append(page, nums)`, `$append(page, [7, 8, 9])`,
		// `windows` holds two sub-slices of `nums` (array of arrays over one backing array)
		`windows.*`, `$.windows.*`, `[windows].*`, `windows[0]`, `$append(windows[0], windows[1])`, `$reverse(windows).*`,
		// one step yielding several of the document's arrays
		`recs.Q`, `[rec.Q, val.Q]`, `recs^(Q).Q`, `$map(recs, function($r){$r.Q * 2})`,
		`matrix[0]`, `matrix[1]`, `matrix.$`, `$append(matrix[0], matrix[1])`, `$reverse(matrix)[0]`, `matrix[1][0]`, `$map(matrix, $count)`, `$zip(matrix[0], matrix[1]).$sum($)`,
		`groups.rows`, `$.groups.rows`, `groups[g = "a"].rows`, `groups.rows[0]`, `groups.rows^(>$)`, `groups.(rows)`,
		`groups.rows[$ > 1]`, `$append(groups.rows, 1)`, `$reverse(groups).rows`, `groups^(>g).rows`, `groups.$count(rows)`,
		`$map(groups, function($x){$x.rows}).*`, `groups.tags.$length()`)
	nodes := []func(d int) string{
		func(d int) string { return `[` + g.Num(d) + `, ` + g.Num(d) + `]` },
		func(d int) string { return `$map(` + g.ArrN(d) + `, function($v){$v * 2})` },
		func(d int) string { return `$map(` + g.ArrN(d) + `, function($v, $i, $a){$v + $i + $count($a)})` },
		func(d int) string { return `$filter(` + g.ArrN(d) + `, function($v){$v > 1})` },
		func(d int) string { return `$sort(` + g.ArrN(d) + `)` },
		func(d int) string { return `$sort(` + g.ArrN(d) + `, function($a,$b){$a < $b})` },
		func(d int) string { return `$reverse(` + g.ArrN(d) + `)` },
		func(d int) string { return `$append(` + g.ArrN(d) + `, ` + g.ArrN(d) + `)` },
		func(d int) string { return `$distinct(` + g.ArrN(d) + `)` },
		func(d int) string { return `$sort($shuffle(` + g.ArrN(d) + `))` },
		func(d int) string { return `$map(` + g.ArrS(d) + `, $length)` },
		func(d int) string { return `$map(` + g.ArrN(d) + `, $sqrt)` },
		func(d int) string { return `(` + g.ArrN(d) + `)[$ >= ` + g.pick("1", "2", "n") + `]` },
		// chained predicates on a path step (keep everything, then drop some)
		func(d int) string { return g.pick("nums", "page", "items.q", "dupn") + `[$ > -1][$ != ` + g.pick("2", "3", "n") + `]` },
		func(d int) string { return g.pick("nums", "items.q") + `[true][$ < 10][$ != 3]` },
		func(d int) string { return `items[q >= 0][p != "x"].q` },
		func(d int) string { return `$dv.nums[$ >= 0][$ != 2]` },
		func(d int) string { return `(` + g.ArrN(d) + `).($ * 2)` },
		func(d int) string { return `items[q > $$.id].q` },
		func(d int) string { return `$zip(` + g.ArrN(d) + `, ` + g.ArrN(d) + `).$sum($)` },
	}
	return g.alt(d, leaves, nodes)
}

// ArrS returns an expression denoting an array of strings.
func (g *Gen) ArrS(d int) string {
	leaves := lit(`s`, `items.p`, `s^(<$)`, `items^(>q).p`, `items^(p).p`, `s.$uppercase()`,
		`items.p.$substringAfter("z")`, `items.(p.$uppercase())`, `items[q > $$.id].p.$lowercase()`,
		`$keys(one)`, `one.$keys()`, `one.$each(function($v,$k){$k & $v})`, `name.$split("z")`,
		`items.p.$pad($$.n.$string().$length() + 8)`, `name.$match(/[a-z]/).match`,
		`recs.P`, `rec.Tags`, `recs^(>Q).P`, `recs.Tags`, `$sort(recs, function($a,$b){$a.Q < $b.Q}).P`, `$reverse(recs).P`,
		`$append(rec.Tags, "c")`, `recs[Q > 0].P`, `$reverse(rec.Tags)`, `$sort(rec.Tags)`,
		`groups.tags`, `groups.g`, `groups[g = "a"].tags`, `groups.tags^(<$)`, `$append(groups.tags, "z")`, `groups.(tags)`)
	nodes := []func(d int) string{
		func(d int) string { return `$split(` + g.Str(d) + `, ` + g.pick(`"z"`, `/z/`, `" "`) + `)` },
		func(d int) string { return `$map(` + g.ArrS(d) + `, $uppercase)` },
		func(d int) string { return `$map(` + g.ArrS(d) + `, $substring(?, 1))` },
		func(d int) string { return `$map(` + g.ArrS(d) + `, $substring(?, 0, n))` },
		func(d int) string { return `$map(` + g.ArrS(d) + `, ($k := n; $substring(?, 0, $k)))` },
		func(d int) string { return `$distinct(` + g.pick("dups", "$append(dups, s)", "items.p") + `)` },
		func(d int) string { return `$distinct($append(` + g.ArrS(d) + `, dups))` },
		func(d int) string { return g.pick("s", "dups", "items.p") + `[$ != ""][$ != ` + g.pick(`"a"`, `"c"`, `$$.s[1]`) + `]` },
		func(d int) string { return `items[q >= 0][q > $$.id].p` },
		func(d int) string { return `s[true][$contains("` + g.pick("a", "b", "c") + `") = false]` },
		func(d int) string { return `$map(` + g.ArrS(d) + `, $pad(?, n + 3, one.k))` },
		func(d int) string { return `$map(` + g.ArrS(d) + `, function($v,$i){$v & $string($i)})` },
		func(d int) string { return `$map(` + g.ArrN(d) + `, $string)` },
		func(d int) string { return `$sort(` + g.ArrS(d) + `)` },
		func(d int) string { return `$sort(` + g.ArrS(d) + `, function($a,$b){$a > $b})` },
		func(d int) string { return `$reverse(` + g.ArrS(d) + `)` },
		func(d int) string { return `$append(` + g.ArrS(d) + `, ` + g.ArrS(d) + `)` },
		func(d int) string { return `$distinct(` + g.ArrS(d) + `)` },
		func(d int) string { return `$filter(` + g.ArrS(d) + `, function($v){$contains($v, "a")})` },
		func(d int) string { return `[` + g.Str(d) + `, ` + g.Str(d) + `]` },
		func(d int) string { return `$each(` + g.Obj1(d) + `, function($v,$k){$k & "=" & $string($v)})` },
		func(d int) string { return `$sort($keys(` + g.Obj(d) + `))` },
		func(d int) string { return `(` + g.ArrS(d) + `).$uppercase()` },
		func(d int) string { return `(` + g.ArrS(d) + `)[$contains("` + g.pick("a", "b", "z") + `")]` },
		func(d int) string { return `$zip(` + g.ArrS(d) + `, ` + g.ArrN(d) + `).($string($[1]) & $[0])` },
	}
	return g.alt(d, leaves, nodes)
}

// Obj1 returns an expression denoting an object with exactly one member.
func (g *Gen) Obj1(d int) string {
	// every production keeps the single member named "k" (a second member
	// would make $each/$keys/$spread results depend on Go map order)
	leaves := lit(`one`, `deep.one`, `{"k": name}`, `{"k": n}`)
	nodes := []func(d int) string{
		func(d int) string { return `{"k": ` + g.Str(d) + `}` },
		func(d int) string { return `{"k": ` + g.Num(d) + `}` },
		func(d int) string { return `$sift(` + g.Obj1(d) + `, function($v){$v != ""})` },
		func(d int) string { return `$merge($spread(` + g.Obj1(d) + `))` },
		func(d int) string { return `(` + g.Obj1(d) + ` ~> |$|{"k": "w"}|)` },
	}
	return g.alt(d, leaves, nodes)
}

// Obj returns an expression denoting an object (possibly several members; it
// must only be consumed by order-insensitive contexts).
func (g *Gen) Obj(d int) string {
	leaves := lit(`one`, `nest`, `items[0]`, `items[1]`, `{"k": "lit", "v": name.$uppercase()}`,
		`items[0]{p: q}`, `items{p: q}`, `$`, `$$`)
	nodes := []func(d int) string{
		func(d int) string { return g.Obj1(d) },
		func(d int) string { return `{"k": "lit", "v": ` + g.Any(d) + `}` },
		func(d int) string { return `$merge([` + g.Obj1(d) + `, {"z": ` + g.Num(d) + `}])` },
		func(d int) string { return `$merge([one, nest, {"k": ` + g.Str(d) + `}])` },
		func(d int) string { return `items{p: $uppercase(p)}` },
		func(d int) string { return g.Transform(d) },
		func(d int) string { return `$sift(` + g.Obj1(d) + `, function($v,$k){$k = "k"})` },
	}
	return g.alt(d, leaves, nodes)
}

// ObjN returns an object with several members whose values are computed
// (MapOrd only: the auto-yield worker, where the iteration order of Go maps
// is fixed per run by the simulator).
func (g *Gen) ObjN(d int) string {
	leaves := lit(`{"a": name.$uppercase(), "b": n.$string(), "c": nest.c.$pad(8, "-")}`, `$`, `$$`, `items[0]`, `items[1]`,
		`{"u": name, "v": txt.$trim(), "w": id}`, `$merge([one, nest, {"n": n}])`, `items{p: q}`, `items{p: $string(q)}`,
		`nums{$string($ % 2): $sum($)}`, `s{$substring($, 0, 1): $uppercase($)}`, `groups[0]`, `{"x": nums[0], "y": nums[1], "z": s[0]}`,
		// groups whose value is the group's own item sequence
		`items{p: $}`, `nums{$string($ % 2): $}`, `s{$substring($, 0, 1): $}`, `items{$string(q % 2): $}`, `recs{P: $}`,
		`nums{$string($ > 2): $}`, `items{p: $.q}`, `$append(nums, nums){$string($ % 3): $}`)
	nodes := []func(d int) string{
		func(d int) string { return `{"a": ` + g.Str(d) + `, "b": ` + g.Str(d) + `}` },
		func(d int) string { return `{"a": ` + g.Str(d) + `, "b": ` + g.Num(d) + `, "c": ` + g.Bool(d) + `}` },
		func(d int) string { return `{"p": ` + g.ArrS(d) + `, "q": ` + g.ArrN(d) + `}` },
		func(d int) string { return `$merge([` + g.ObjN(d) + `, {"z": ` + g.Num(d) + `, "y": ` + g.Str(d) + `}])` },
		func(d int) string { return `$sift(` + g.ObjN(d) + `, function($v,$k){$k != "b"})` },
		func(d int) string { return `(` + g.ObjN(d) + ` ~> |$|{"y": ` + g.Str(d) + `, "x": ` + g.Num(d) + `}|)` },
		func(d int) string { return `{"in": ` + g.ObjN(d) + `, "s": ` + g.Str(d) + `}` },
	}
	return g.alt(d, leaves, nodes)
}

// MapOrd returns a program whose evaluation order or result order follows
// the iteration order of a Go map with several entries.
func (g *Gen) MapOrd(d int) (string, bool) {
	o := g.ObjN(d)
	switch g.R.Intn(16) {
	case 0:
		return `$keys(` + o + `)`, false
	case 1:
		return o + `.*`, false
	case 2:
		return `$each(` + o + `, function($v,$k){$k & "=" & $string($v)})`, false
	case 3:
		return `$spread(` + o + `)`, false
	case 4:
		return `$string(` + o + `)`, true
	case 5:
		return `$join($keys(` + o + `), ",")`, false
	case 6:
		return `$each(` + o + `, function($v,$k){$k.$uppercase() & $v.$string().$length()})`, false
	case 7:
		return `(` + o + `).**`, false
	case 8:
		return `$count(` + o + `.**)`, true
	case 9:
		return `$map($keys(` + o + `), function($k){$k.$pad(4, "_")})`, false
	case 10:
		return `$spread(` + o + `).$keys()`, false
	case 11:
		return `$merge($spread(` + o + `)).*`, false
	case 12, 14, 15:
		return g.pick(`[`+o+`, `+g.ObjN(d)+`].$keys()[0]`, `$keys(recs)`, `$keys([rec, val, one])`, `$keys(items)`, `$keys([val, `+o+`])`,
			// keys that differ from task to task, after a struct
			`$keys([val, {name: 1}])`, `$keys([rec, {name: n}, one])`, `$keys($append(recs, {name: 1}))`, `$keys([val, {nest.c: 1}])`), false
	default:
		return o, true
	}
}

// Transform returns an object/array produced by the transform operator.
func (g *Gen) Transform(d int) string {
	leaves := lit(
		`$ ~> |items|{"r": q * 2}|`,
		`$ ~> |items|{"r": p.$uppercase()}, ["q"]|`,
		`$ ~> |$|{"z": 1}|`,
		`$map(items, |$|{"t": 1}|)`,
		`one ~> |$|{"x": name}|`,
		`$ ~> |one|{"x": 1}, "k"|`,
		`$ ~> |nest|{"c": c & "!"}|`,
		`$ ~> |items[q > 0]|{"q": q + 1}|`,
		`items ~> |$|{"p": $uppercase(p)}|`,
		`$ ~> |items|{}, ["p", "q"]|`,
		`($t := |items|{"r": 1}|; $ ~> $t ~> $t)`,
		// updates whose values are containers of the input (the result then
		// aliases the caller's data), followed by a transform that targets them
		`$ ~> |items|{"ref": $$.one}| ~> |items.ref|{"x": 1}|`,
		`$ ~> |nest|{"o": $$.items[0]}| ~> |nest.o|{}, "p"|`,
		`$ ~> |$|{"cp": one}| ~> |cp|{"k": "w"}|`,
		`$ ~> |$|{"cfg": $dv.one}| ~> |cfg|{"z": 1}|`,
		`$ ~> |one|{"all": $$.items}| ~> |one.all|{"q": 0}|`,
		`($t := $ ~> |items|{"ref": $$.nest}|; $t ~> |items[0].ref|{"c": "w"}|)`,
		`items ~> |$|{"root": $$.one}| ~> |$.root|{"k": "changed"}|`,
		// patterns that select empty containers
		`$ ~> |e|{"seen": true}|`,
		`$ ~> |metas|{"seen": true}|`,
		`$map(metas, |$|{"t": 1}|)`,
		`e ~> |$|{"x": name}|`,
		`$ ~> |metas[0]|{"m": $$.n}, "a"|`,
		`$ ~> |one|{"x": 1}| ~> |one|{"y": x + 1}|`,
		`$ ~> |rec|{"Z": 1}|`, `rec ~> |$|{"P": "w"}|`, `$ ~> |recs|{"Q": 0}, "P"|`, `$ ~> |rec.In|{"c": "w"}|`, `$ ~> |rec.Sub|{"P": "w"}|`,
		`$ ~> |val|{"P": "w"}|`, `rec ~> |In|{"c": "w"}, "k"|`, `$ ~> |recs|{"Tags": $append(Tags, "z")}|`, `$merge([rec, {"z": 1}])`, `$sift(rec, function($v,$k){$k = "P"})`,
		`$ ~> |$|{"m0": matrix[0]}| ~> |$|{"m0": $append(m0, 9)}|`,
		`$ ~> |groups|{"n": $count(rows)}|`,
		`$ ~> |groups|{"rows": $append(rows, 0)}, "tags"|`,
		`groups ~> |$|{"first": rows[0]}, ["tags"]|`,
		`$ ~> |groups[g = "a"]|{"rows": $reverse(rows)}|`,
	)
	nodes := []func(d int) string{
		func(d int) string {
			return `$ ~> |` + g.pick("items", "one", "nest", "$") + `|{"r": ` + g.Any(d) + `}|`
		},
		func(d int) string { return `(` + g.Obj(d) + `) ~> |$|{"x": ` + g.Num(d) + `}|` },
		func(d int) string { return `$map(items, |$|{"t": ` + g.Str(d) + `}, "q"|)` },
	}
	return g.alt(d, leaves, nodes)
}

// TransformOutside returns transforms whose pattern selects nodes outside the
// cloned argument ($$-relative or variable-relative). They must not write
// into the caller's document either (C07).
func (g *Gen) TransformOutside() string {
	if g.R.Chance(1, 6) {
		// the pattern selects the root of the copy and THEN an outside node;
		// the update of the first selected item stores that outside node in
		// the copy (only the root has "id"), so that when the second item
		// is reached the copy refers to it - it still is not part of the copy
		sel := g.pick(`$$.one`, `$$.nest`, `$$.items[0]`, `$v`, `$$.groups[1]`)
		pat := g.pick(`[$, `+sel+`]`, `$append([$], [`+sel+`])`, `($; [$, `+sel+`])`)
		upd := g.pick(`{"ref": $exists(id) ? `+sel+`, "mark": 1}`, `{"ref": $exists(id) ? `+sel+`}, "k"`,
			`{"refs": $exists(id) ? [`+sel+`], "mark": 1}`, `{"ref": $exists(id) ? {"in": `+sel+`}, "mark": 1}, ["c", "p"]`)
		return `($v := ` + g.pick("one", "nest", "items[1]") + `; $ ~> |` + pat + `|` + upd + `|)`
	}
	if g.R.Chance(2, 3) {
		// selector of a node outside the copy, reached in various syntactic ways
		sel := g.pick(`$$.one`, `$$.nest`, `$$.items`, `$$.items[0]`, `$v`, `$$.e`, `$$.metas`, `$$.rec`, `$$.rec.In`, `$$.recs`, `$$.groups`)
		pat := sel
		switch g.R.Intn(10) {
		case 0:
			pat = `items.(` + sel + `)`
		case 1:
			pat = `$lookup($$, "` + g.pick("one", "nest", "items") + `")`
		case 2:
			pat = `[` + sel + `]`
		case 3:
			pat = `(` + sel + `)`
		case 4:
			pat = `($f := function(){` + sel + `}; $f())`
		case 5:
			pat = `$map([1], function($x){` + sel + `})`
		case 6:
			pat = sel + `[true]`
		case 7:
			pat = `$filter([` + sel + `], function($o){true})`
		case 8:
			pat = `one.(` + sel + `)`
		}
		arg := g.pick(`$`, `one`, `items`, `nest`)
		upd := g.pick(`{"x": 1}`, `{"c": "w"}`, `{"r": 0}, "q"`, `{}, "p"`, `{"k": "w"}, ["k"]`)
		pre := ""
		switch g.R.Intn(6) {
		case 0: // a function defined outside the pattern hands out the node
			pre = `$pick := function(){` + sel + `}; `
			pat = `$pick()`
		case 1: // ... or takes an argument and ignores it
			pre = `$pick := function($x){` + sel + `}; `
			pat = `$pick(` + g.pick("$", "one", `"k"`) + `)`
		case 2: // a Go extension returns the node it was given
			pat = `$xid(` + sel + `)`
		}
		return `($v := ` + g.pick("one", "items", "nest", "items[1]") + `; ` + pre + arg + ` ~> |` + pat + `|` + upd + `|)`
	}
	return g.pick(
		`$ ~> |$$.one|{"x": 1}|`,
		`($v := one; $ ~> |$v|{"x": 1}|)`,
		`one ~> |$$.nest|{"c": "w"}|`,
		`($v := items; $ ~> |$v|{"r": 0}, "q"|)`,
		`$ ~> |$$.items|{}, "p"|`,
		`items ~> |$$.items[0]|{"q": 99}|`,
	)
}

// Bool returns a boolean-valued expression.
func (g *Gen) Bool(d int) string {
	leaves := lit(`n > 1`, `name = "t1zq"`, `name.$contains("q")`, `$exists(one.k)`, `$exists(nosuch)`,
		`true`, `false`, `$millis() = $millis()`, `$now() = $now()`, `$random() < 1`, `id in nums`,
		`nest.c.$contains(/X/)`, `txt.$boolean()`, `nosuch.$not()`)
	nodes := []func(d int) string{
		func(d int) string {
			return `(` + g.Num(d) + ` ` + g.pick(">", "<", ">=", "<=", "=", "!=") + ` ` + g.Num(d) + `)`
		},
		func(d int) string { return `(` + g.Str(d) + ` ` + g.pick("=", "!=", "<", ">") + ` ` + g.Str(d) + `)` },
		func(d int) string { return `$contains(` + g.Str(d) + `, ` + g.pick(`"q"`, `/z/`, `"1"`) + `)` },
		func(d int) string { return `$not(` + g.Bool(d) + `)` },
		func(d int) string { return `$boolean(` + g.Any(d) + `)` },
		func(d int) string { return `(` + g.Bool(d) + ` ` + g.pick("and", "or") + ` ` + g.Bool(d) + `)` },
		func(d int) string { return `(` + g.Str(d) + ` in ` + g.ArrS(d) + `)` },
		func(d int) string { return `$exists(` + g.Any(d) + `)` },
		func(d int) string { return `(` + g.ArrN(d) + ` = ` + g.ArrN(d) + `)` },
		func(d int) string { return `($merge($spread(` + g.Obj1(d) + `)) = ` + g.Obj1(d) + `)` },
	}
	return g.alt(d, leaves, nodes)
}

// Fail returns an expression that fails (or is likely to).
func (g *Gen) Fail(d int) string {
	leaves := lit(`$error("boom")`, `name + 1`, `$nosuch(1)`, `$count(1,2)`, `$uppercase(1)`,
		`($f := $count; $f(1,2))`, `name.$power()`, `$pad(?, "2")(1)`, `4 ~> $power(2, 3)`,
		`[1..1.5]`, `$sort(items)`, `nums^(name)`, `{"a": 1, "a": 2}`, `1 ~> 2`, `$number("x")`,
		`$toMillis("notadate")`, `$fromMillis(1, "[Q]")`, `$ ~> |items|"notanobject"|`, `$ ~> |items|{}, 1|`,
		`$substring()`, `$single(nums)`, `$reduce(nums, function($a){$a})`, `$formatBase(1, 99)`,
		`function($x)<n:n>{$x}("s")`, `$map(nums, function($v){$v + name})`,
		// values that cannot be stringified (failure inside the encoder)
		`$string([$sum([1e308, 1e308])])`, `"x" & [$sum([1e308, 1e308])]`, `$string({"a": $sum([1e308, 1e308])})`,
		`$ ~> |items|{"r": $sum([1e308, 1e308])}|`,
		// failures deep inside nested user-defined function calls
		`($f := function($n){$n = 0 ? $error("deep") : $f($n - 1)}; $f(40))`,
		`($f := function($n){$n = 0 ? name + 1 : $f($n - 1)}; $f(25))`,
		`($g := function($a){$map($a, function($v){$v > 2 ? $uppercase($v) : $v})}; $g(nums))`,
		`$reduce([1..30], function($a, $b){$b = 30 ? $error("late") : $a + $b})`)
	nodes := []func(d int) string{
		func(d int) string { return `$uppercase(` + g.Num(d) + `)` },
		func(d int) string { return `(` + g.Str(d) + ` + 1)` },
		func(d int) string { return `$map(` + g.ArrN(d) + `, function($v){$error("e" & $string($v))})` },
		func(d int) string { return `[` + g.Str(d) + `, ` + g.Fail(d) + `]` },
		func(d int) string { return `{"k": ` + g.Fail(d) + `}` },
		func(d int) string { return `(` + g.Bool(d) + ` ? ` + g.Fail(d) + ` : ` + g.Str(d) + `)` },
		func(d int) string { return `$ ~> |items|{"r": ` + g.Fail(d) + `}|` },
	}
	if g.Ext {
		nodes = append(nodes, func(d int) string { return `$xfault(` + g.Str(d) + `)` })
	}
	return g.alt(d, leaves, nodes)
}

// Any returns an expression of any category.
func (g *Gen) Any(d int) string {
	switch g.R.Intn(7) {
	case 0:
		return g.Str(d)
	case 1:
		return g.Num(d)
	case 2:
		return g.ArrN(d)
	case 3:
		return g.ArrS(d)
	case 4:
		return g.Obj1(d)
	case 5:
		return g.Bool(d)
	default:
		return g.pick(`null`, `nosuch`, `nil`, `ea`, `e`, `one`, `name`, `nums`,
			// paths whose values are of different kinds in different documents
			`poly`, `mixed.v`, `mixed^(v).v`, `mixed^(>v)[0].v`, `$sort(mixed.v)`, `$max(mixed.v)`, `$sum(mixed.v)`,
			`poly + 1`, `$length(poly)`, `$string(poly)`, `$type(poly)`, `mixed[v = 1]`, `$join(mixed.v)`, `poly & ""`,
			`$number(poly)`, `mixed{$string(v): $count($)}`, `$distinct(mixed.v)`, `$reverse(mixed.v)`, `[poly][0]`,
			// typed nils and pointers to scalars (typed documents only; "no value" elsewhere)
			`opt`, `nils`, `nmap`, `nsl`, `opt.ps`, `nils[1]`, `$count(nils)`, `{"o": opt}`, `[nils]`, `$append(nils, 1)`,
			`$sort($keys(opt))`, `$reverse(nils)`, `opt.np`, `$exists(opt.nr)`, `$append(nsl, nils)`, `$merge([opt, {"z": 1}])`,
			`(opt ~> |$|{"z": 1}|)`, `$type(opt.np)`, `nils[0]`, `$distinct(nils)`, `$lookup(opt, "pf")`)
	}
}

// Families lists the top-level families in generation order.
var Families = []string{"str", "num", "arrn", "arrs", "obj", "bool", "transform", "fail", "outside"}

// Program generates one program of the given family ("" = random family,
// excluding "outside", which callers request explicitly).
func (g *Gen) Program(family string, depth int) Program {
	if family == "" {
		family = Families[g.R.Intn(len(Families)-1)]
	}
	for try := 0; ; try++ {
		var text string
		outFamily := family
		switch family {
		case "str":
			text = g.Str(depth)
		case "num":
			text = g.Num(depth)
		case "arrn":
			text = g.ArrN(depth)
		case "arrs":
			text = g.ArrS(depth)
		case "obj":
			text = g.Obj(depth)
		case "bool":
			text = g.Bool(depth)
		case "transform":
			text = g.Transform(depth)
		case "fail":
			text = g.Fail(depth)
		case "outside":
			text = g.TransformOutside()
		case "mapord":
			var ins bool
			text, ins = g.MapOrd(depth)
			outFamily = "mapord"
			if ins {
				// the result is an object (or a count / a JSON text with
				// sorted keys): it must not depend on the order in which
				// the members were visited
				outFamily = "mapobj"
			}
		default:
			panic("unknown family " + family)
		}
		if len(text) > 600 {
			if depth > 0 {
				depth--
			}
			continue
		}
		if _, err := jparse.Parse(text); err != nil {
			if try > 50 {
				panic(fmt.Sprintf("generator produces unparsable programs: %q: %v", text, err))
			}
			continue
		}
		return Program{Text: text, Family: outFamily}
	}
}

// Catalogue is a fixed list of programs that every check visits early; it
// contains the shapes the property texts name.
var Catalogue = []Program{
	{`name.$substringBefore("z")`, "str"},
	{`name.$pad(8,"-")`, "str"},
	{`4 ~> $power(2)`, "num"},
	{`$pad(?, "2")(1)`, "fail"},
	{`nums ~> $sum() ~> $string()`, "str"},
	{`name ~> $uppercase() ~> $pad(10)`, "str"},
	{`($f := $uppercase ~> $lowercase; $f(name))`, "str"},
	{`($p := $substringBefore(?, "z"); $p(name))`, "str"},
	{`$map(s, $substring(?, 1))`, "arrs"},
	{`($f := $count; $f(1,2))`, "fail"},
	{`items.p.$pad($$.n.$string().$length() + 8)`, "arrs"},
	{`name.$substringBefore($$.nest.c.$substringAfter("X"))`, "str"},
	{`$ ~> |items|{"r": q * 2}|`, "transform"},
	{`$sort(s)`, "arrs"},
	{`$reverse(nums)`, "arrn"},
	{`items^(>q).p`, "arrs"},
	{`$replace(name, /\d/, function($m){$m.match & "!"})`, "str"},
	{`items[q > $$.id].p.$lowercase()`, "arrs"},
	// the same picture / pattern / layout under different options: whichever
	// a process meets first must not decide what the other one gives
	{`$formatNumber(1234.5678, "#,##0.00")`, "str"},
	{`$formatNumber(1234.5678, "#,##0.00", {"decimal-separator": ",", "grouping-separator": "."})`, "str"},
	{`$formatNumber(1234.5678, "#.##0,00")`, "str"},
	{`$formatNumber(1234.5678, "#.##0,00", {"decimal-separator": ",", "grouping-separator": "."})`, "str"},
	{`$formatNumber(-0.5, "0.0;(0.0)")`, "str"},
	{`$formatNumber(-0.5, "0.0;(0.0)", {"minus-sign": "~"})`, "str"},
	{`$formatNumber(0.25, "0%")`, "str"},
	{`$formatNumber(0.25, "0%", {"percent": "pc"})`, "str"},
	{`$formatNumber(12, "#0", {"zero-digit": "٠"})`, "str"},
	{`$formatNumber(12, "#0")`, "str"},
	{`$formatNumber(-7.5, "0.0")`, "str"},
	{`$formatNumber(-7.5, "0.0", {"minus-sign": "~"})`, "str"},
	{`$formatNumber(-8, "000", {"minus-sign": "m"})`, "str"},
	{`$formatNumber(-8, "000")`, "str"},
	{`$formatNumber(0.005, "0‰")`, "str"},
	{`$formatNumber(0.005, "0‰", {"per-mille": "pm"})`, "str"},
	{`$formatNumber(1234.5, "#,##0.0", {"grouping-separator": "'"})`, "str"},
	{`$formatNumber(1234.5, "#,##0.0", {"decimal-separator": "·"})`, "str"},
	{`$formatNumber(1234.5, "#,##0.0")`, "str"},
	{`$formatNumber(5, "0;n0", {"pattern-separator": "|"})`, "fail"},
	{`$formatNumber(-5, "0|n0", {"pattern-separator": "|"})`, "str"},
	{`$formatNumber(-5, "0;n0")`, "str"},
	{`$formatNumber(42, "##@", {"digit": "@"})`, "fail"},
	{`$formatNumber(42, "@@0", {"digit": "@"})`, "str"},
	{`$formatNumber(42, "##0")`, "str"},
	{`$fromMillis(1510067557121, "[Y0001]-[M01]-[D01]")`, "str"},
	{`$fromMillis(1510067557121, "[Y0001]-[M01]-[D01]", "+0530")`, "str"},
	{`$fromMillis(1510067557121, "[H01]:[m01] [Z]", "-0800")`, "str"},
	{`$fromMillis(1510067557121, "[H01]:[m01] [Z]")`, "str"},
	{`$toMillis("2017-11-07", "[Y0001]-[M01]-[D01]")`, "num"},
	{`$toMillis("07/11/2017", "[D01]/[M01]/[Y0001]")`, "num"},
	// one timestamp per default layout of $toMillis (no picture)
	{`$toMillis("2017-11-07T12:28:31+05:30")`, "num"},
	{`$toMillis("2017-11-07T12:28:31+0530")`, "num"},
	{`$toMillis("2017-11-07T12:28:31Z")`, "num"},
	{`$toMillis("2017-11-07T12:28:31")`, "num"},
	{`$toMillis("2017-11-07")`, "num"},
	{`$toMillis("2017")`, "num"},
	{`$toMillis("12:28 07.11.2017", "[H01]:[m01] [D01].[M01].[Y0001]")`, "num"},
	{`$fromMillis(1510067557121)`, "str"},
	{`$fromMillis(1510067557121, "[H01]:[m01] [ZZ]", "+0530")`, "str"},
	{`$fromMillis(1510067557121, "[H01]:[m01] [ZZ]", "+0100")`, "str"},
	{`$fromMillis(1510067557121, "[H01]:[m01] [ZZ]")`, "str"},
	{`$fromMillis(1510067557121, "[H01]:[m01] [z]", "-0500")`, "str"},
	{`$fromMillis(1510067557121, "[H01]:[m01] [z]")`, "str"},
	{`$fromMillis(1510067557121, "[FNn], [D1o] [MNn] [Y]")`, "str"},
	{`$fromMillis(1510067557121, "[FNn], [D1o] [MNn] [Y]", "+1400")`, "str"},
	{`$fromMillis(1510067557121, "[h]:[m01] [PN]", "-1000")`, "str"},
	{`$fromMillis(1510067557121, "[h]:[m01] [PN]")`, "str"},
	{`$fromMillis(1510067557121, "[W] [w] [d] [E] [C]")`, "fail"},
	{`$fromMillis(1510067557121, (), "-0330")`, "str"},
	{`$replace("abcabc", /b/, "X")`, "str"},
	{`$replace("abcabc", /b/, "X", 1)`, "str"},
	{`$split("a1b22c", /\d+/)`, "arrs"},
	{`$split("a1b22c", /\d/)`, "arrs"},
	{`$match("a1b22c", /\d+/).match`, "arrs"},
	{`$contains("a1b22c", /\d{2}/)`, "bool"},
	{`$formatBase(255, 16)`, "str"},
	{`$formatBase(255, 2)`, "str"},
	{`$pad("x", 5, "ab")`, "str"},
	{`$pad("x", -5, "ab")`, "str"},
	{`$number("0x1F")`, "fail"},
	{`$string(1e21)`, "str"},
	{`$round(2.5)`, "num"},
	{`$round(-2.5, 0)`, "num"},
}

// Churn returns the i-th member of a family of programs that differ only in a
// picture / pattern / layout parameter (i = 0, 1, 2, ... gives distinct
// programs). A long run of them between two evaluations of an unrelated
// program fills and evicts whatever remembers analysed pictures or patterns.
func Churn(kind, i int) (text string, probe string) {
	seps := []string{"-", "/", " ", ":", ".", "_", ", "}
	switch kind % 4 {
	case 0: // date pictures, parsed and rendered
		comps := []string{"[Y0001]", "[M01]", "[D01]", "[H01]", "[m01]", "[s01]"}
		pic, k := "", i
		for j, c := range comps {
			if j > 0 {
				pic += seps[k%len(seps)]
				k /= len(seps)
			}
			pic += c
		}
		return `$toMillis($fromMillis(1510067557000, "` + pic + `"), "` + pic + `")`, `$toMillis("2017-11-07", "[Y0001]-[M01]-[D01]")`
	case 1: // number pictures
		pic := "#"
		for j := 0; j < 1+i%9; j++ {
			pic += "0"
		}
		pic += "."
		for j := 0; j < 1+(i/9)%9; j++ {
			pic += "0"
		}
		for j := 0; j < (i/81)%5; j++ {
			pic += "#"
		}
		return `$formatNumber(1234.5678, "` + pic + `")`, `$formatNumber(1234.5678, "#,##0.00")`
	case 2: // regular expressions
		return fmt.Sprintf(`$replace("abcabcabcabc", /ab{0,%d}c{1,%d}/, "-")`, i%40, 1+i/40), `$replace("abcabc", /b/, "X")`
	default: // rendering pictures with varying widths
		return fmt.Sprintf(`$fromMillis(1510067557121, "[Y]%s[M%s]%s[D%s]")`, seps[i%len(seps)], []string{"1", "01", "001"}[(i/7)%3], seps[(i/21)%len(seps)], []string{"1", "01", "1o"}[(i/147)%3]),
			`$fromMillis(1510067557121, "[Y0001]-[M01]-[D01]")`
	}
}

// HasExt reports whether the program text uses a harness extension.
func HasExt(text string) bool { return strings.Contains(text, "$x") }
