package run

import (
	"crypto/sha256"
	"encoding/hex"
	"encoding/json"
	"fmt"
	"math/rand"
	"reflect"
	"sort"
	"strconv"
	"strings"
	"sync"
	"time"

	jsonata "github.com/blues/jsonata-go"
	"github.com/blues/jsonata-go/jparse"
	"github.com/blues/jsonata-go/jtypes"

	"verif/sim/engine"
	"verif/sim/oracle"
)

// DebugEvents makes Execute dump the event log into Result.Note.
var DebugEvents bool

// MaxEvents bounds one run (yields + decisions).
const MaxEvents = 300000

var hooksOnce sync.Once

// InstallHooks connects the /repo hooks to the engine. Idempotent.
func InstallHooks() {
	hooksOnce.Do(func() {
		engine.IsLiteral = func(n interface{}) bool {
			switch n.(type) {
			case *jparse.StringNode, *jparse.NumberNode, *jparse.BooleanNode, *jparse.NullNode:
				return true
			}
			return false
		}
		engine.StepFault = stepFault
		jsonata.VerifYield = engine.HookYield
		jsonata.VerifStep = func(n jparse.Node) error { return engine.HookStep(n) }
		jsonata.VerifLockWait = engine.HookLockWait
		installAuto()
		// (no warm-up of the library here: the first run of a process is a
		// cold start, see Spec.ColdStart)
	})
}

//go:norace
func stepFault(t *engine.Task, step int) error {
	f, _ := t.Fault.(*Fault)
	if f == nil || f.Kind != "abort" || f.At != step {
		return nil
	}
	if r := cur; r != nil {
		r.results[t.ID][t.Op()].Fired = "abort"
	}
	return &engine.AbortError{Task: t.ID, Op: t.Op(), Step: step}
}

// InjectedError is returned by $xfault under an ext-error fault.
type InjectedError struct{ Task, Op, Call int }

func (e *InjectedError) Error() string { return "verif: injected extension error" }

type injectedPanic struct{}

type docInst struct {
	spec     DocSpec
	val      interface{}
	pristine interface{}
}

type exprInst struct {
	id     string
	text   string
	family string
	e      *jsonata.Expr
	str0   string
	ast0   string
	vars   map[string]*docInst
	exts   bool
	owner  int
	// registry model bookkeeping (C20): index into the model's Expr table
	midx int
	// resultVar: an earlier result was registered on it as $prev (no
	// time-independent reference exists for its evaluations)
	resultVar bool
}

// trackedVar is a result value that became a registered variable.
type trackedVar struct {
	val      interface{}
	canon    string
	from     int
	reported bool
}

// OpResult is what a task records about one operation. It is written by the
// task goroutine only and read by the controller after the join.
type OpResult struct {
	Done     bool
	Outcome  string
	Err      error
	Fired    string // fault kind that actually fired
	FiredErr error  // the injected error value
	Checks   []Violation
	Invoke   int
	Return   int
	CtxArgs  []string // arguments received by $xctx
	Handlers []string // what the handlers and the body of $xboth saw, in call order
	UndefIn  int      // times the body of $xundef was entered
	val      interface{} // raw result of a successful Eval (task-local)
	vars     map[string]*docInst // the Expr's registered documents at the time of the op (after "erebind" they differ from the final ones)
	varsAt   bool
	T0, T1   int64    // simulated clock around the op (engine B)
	Steps    int
}

// resetGlobals puts the process-wide state back to program start and, in
// runs that use package-level extensions (one set of function objects shared
// by every Expr of the process, as a server registering at init does),
// registers the harness extensions there.
func (r *runner) resetGlobals() {
	jsonata.VerifResetGlobals()
	if r.spec.GlobalExts {
		if err := jsonata.RegisterExts(r.harnessExts()); err != nil {
			panic(err)
		}
	}
}

func faultKey(f *Fault) string { return fmt.Sprintf("\x00F%s@%d", f.Kind, f.At) }

type runner struct {
	refFault *Fault
	refCalls int
	epochMs  int64
	warm     []OpResult // outcomes of Spec.Warm
	spec    *Spec
	prop    string
	docs    map[string]*docInst
	exprs   map[string]*exprInst // controller-compiled
	priv    []map[string]*exprInst
	refs    map[string]string // triple key -> reference outcome
	refStep map[string]int
	results [][]OpResult
	tracked [][]trackedVar // per task: results registered as variables
	sched   *engine.Sched
	stamp   int
	model   *regModel
}

// carve re-homes all []interface{} of v as windows of one backing array (see
// DocSpec.Carve). Deterministic: maps are walked in key order and the
// placement order is a fixed permutation derived from the number of arrays.
func carve(v interface{}) interface{} {
	var lens []int
	var count func(v interface{})
	count = func(v interface{}) {
		switch x := v.(type) {
		case map[string]interface{}:
			for _, k := range sortedKeys(x) {
				count(x[k])
			}
		case []interface{}:
			lens = append(lens, len(x))
			for _, e := range x {
				count(e)
			}
		}
	}
	count(v)
	if len(lens) < 2 {
		return v
	}
	// placement order: a permutation of the arrays (splitmix64 over the index)
	order := make([]int, len(lens))
	for i := range order {
		order[i] = i
	}
	rng := engine.NewRNG(uint64(len(lens)), "carve")
	for i := len(order) - 1; i > 0; i-- {
		j := rng.Intn(i + 1)
		order[i], order[j] = order[j], order[i]
	}
	off := make([]int, len(lens))
	total := 0
	for _, idx := range order {
		off[idx] = total
		total += lens[idx]
	}
	backing := make([]interface{}, total)
	n := 0
	var walk func(v interface{}) interface{}
	walk = func(v interface{}) interface{} {
		switch x := v.(type) {
		case map[string]interface{}:
			for _, k := range sortedKeys(x) {
				x[k] = walk(x[k])
			}
			return x
		case []interface{}:
			idx := n
			n++
			w := backing[off[idx] : off[idx]+len(x)]
			for i, e := range x {
				w[i] = walk(e)
			}
			return w
		}
		return v
	}
	return walk(v)
}

func sortedKeys(m map[string]interface{}) []string {
	ks := make([]string, 0, len(m))
	for k := range m {
		ks = append(ks, k)
	}
	sort.Strings(ks)
	return ks
}

// cur is the runner of the run in progress (found by extensions and fault
// hooks, which have no receiver).
var cur *runner

//go:norace
func (r *runner) nextStamp() int { r.stamp++; return r.stamp }

func buildDoc(d DocSpec) *docInst {
	di := &docInst{spec: d, val: oracle.ParseDoc(d.JSON), pristine: oracle.ParseDoc(d.JSON)}
	if len(d.Alias) == 2 {
		for _, v := range []interface{}{di.val, di.pristine} {
			if m, ok := v.(map[string]interface{}); ok {
				m[d.Alias[0]] = m[d.Alias[1]]
			}
		}
	}
	if len(d.Subslice) == 3 {
		n, _ := strconv.Atoi(d.Subslice[2])
		for _, v := range []interface{}{di.val, di.pristine} {
			if m, ok := v.(map[string]interface{}); ok {
				if src, ok := m[d.Subslice[1]].([]interface{}); ok && n <= len(src) {
					m[d.Subslice[0]] = src[:n]
					if n+1 <= len(src) {
						// two windows over the same backing array, as an array of arrays
						m["windows"] = []interface{}{src[:n], src[n+1:]}
					}
				}
			}
		}
	}
	if d.Carve {
		di.val = carve(di.val)
	}
	if d.Typed {
		// Go-typed containers instead of the generic ones encoding/json
		// produces: callers may hand Eval any Go value
		for _, v := range []interface{}{di.val, di.pristine} {
			m, ok := v.(map[string]interface{})
			if !ok {
				continue
			}
			if items, ok := m["items"].([]interface{}); ok {
				typed := make([]map[string]interface{}, 0, len(items))
				for _, it := range items {
					if im, ok := it.(map[string]interface{}); ok {
						typed = append(typed, im)
					}
				}
				m["items"] = typed
			}
			if nums, ok := m["nums"].([]interface{}); ok {
				typed := make([]float64, 0, len(nums)+2)
				for _, n := range nums {
					if f, ok := n.(float64); ok {
						typed = append(typed, f)
					}
				}
				m["nums"] = typed
			}
			if ss, ok := m["s"].([]interface{}); ok {
				typed := make([]string, 0, len(ss)+2)
				for _, x := range ss {
					if str, ok := x.(string); ok {
						typed = append(typed, str)
					}
				}
				m["s"] = typed
			}
			if one, ok := m["one"].(map[string]interface{}); ok {
				m["tmap"] = map[string]map[string]interface{}{"a": one, "b": {"k": "tb"}}
			}
			// Go structs: by pointer, by value, in a slice, nested
			name, _ := m["name"].(string)
			n, _ := m["n"].(float64)
			nest, _ := m["nest"].(map[string]interface{})
			m["rec"] = &oracle.Rec{P: name, Q: n, Tags: []string{"a" + name, "b"}, In: nest, Sub: &oracle.Rec{P: "sub" + name, Q: n + 1}}
			m["val"] = oracle.Rec{P: "v" + name, Q: n * 2, Tags: []string{}}
			m["recs"] = []oracle.Rec{{P: "r1" + name, Q: 1}, {P: "r0", Q: n, Tags: []string{"t"}}, {P: "r2", Q: 0.5, In: map[string]interface{}{"k": name}}}
			// "the wrong kind of nil": typed nil pointers, nil maps and nil
			// slices stored in generic containers (deep equality tells
			// them from a plain nil), next to non-nil pointers to scalars
			ps, pf := "p"+name, n+0.5
			m["opt"] = map[string]interface{}{"np": (*string)(nil), "ps": &ps, "nr": (*oracle.Rec)(nil), "pf": &pf}
			m["nils"] = []interface{}{(*string)(nil), "x" + name, (*oracle.Rec)(nil), nil, &ps, map[string]interface{}(nil), []interface{}(nil)}
			m["nmap"] = map[string]interface{}(nil)
			m["nsl"] = []interface{}(nil)
		}
	}
	if d.Member != "" {
		// the document is one member of the decoded value (a sub-structure
		// registered as a variable on its own)
		di.val = di.val.(map[string]interface{})[d.Member]
		di.pristine = di.pristine.(map[string]interface{})[d.Member]
	}
	return di
}

func tripleKey(text string, doc *docInst, vars map[string]*docInst, exts bool) string {
	var b strings.Builder
	b.WriteString(text)
	b.WriteByte(0)
	if doc != nil {
		b.WriteString(doc.spec.JSON)
		b.WriteString(strings.Join(doc.spec.Alias, ">"))
		b.WriteString("#" + doc.spec.Member + "#" + strings.Join(doc.spec.Subslice, ",") + fmt.Sprint(doc.spec.Typed, doc.spec.Carve))
	}
	b.WriteByte(0)
	names := make([]string, 0, len(vars))
	for n := range vars {
		names = append(names, n)
	}
	sort.Strings(names)
	for _, n := range names {
		vs := vars[n].spec
		b.WriteString(n + "=" + vs.JSON + strings.Join(vs.Alias, ">") + "#" + vs.Member + "#" + strings.Join(vs.Subslice, ",") + fmt.Sprint(vs.Typed, vs.Carve) + ";")
	}
	if exts {
		b.WriteString("\x00x")
	}
	return b.String()
}

func (r *runner) harnessExts() map[string]jsonata.Extension {
	return map[string]jsonata.Extension{
		"xid": {Func: func(v interface{}) interface{} { return v }},
		"xctx": {
			Func: func(s string) string {
				if t := engine.Current(); t != nil {
					res := &r.results[t.ID][t.Op()]
					res.CtxArgs = append(res.CtxArgs, s)
				}
				return "ctx:" + s
			},
			EvalContextHandler: jtypes.ArgCountEquals(0),
		},
		"xfault": {Func: func(v interface{}) (interface{}, error) { return r.extFault(v) }},
		"xundef": {
			Func: func(v interface{}) interface{} {
				if t := engine.Current(); t != nil {
					r.results[t.ID][t.Op()].UndefIn++
				}
				return "entered"
			},
			UndefinedHandler: jtypes.ArgUndefined(0),
		},
		// an extension with BOTH handlers; each of them records what it sees
		"xboth": {
			Func: func(a, b interface{}) string {
				r.handlerLog(fmt.Sprintf("F:%v", a != nil))
				s, _ := a.(string)
				return "both:" + s
			},
			UndefinedHandler: func(argv []reflect.Value) bool {
				r.handlerLog(fmt.Sprintf("U:%d", len(argv)))
				return len(argv) > 0 && !argv[0].IsValid()
			},
			EvalContextHandler: func(argv []reflect.Value) bool {
				r.handlerLog(fmt.Sprintf("C:%d:%v", len(argv), len(argv) == 1))
				return len(argv) == 1
			},
		},
		// an Optional trailing parameter; the UndefinedHandler asks whether
		// the SECOND argument is undefined (as jtypes.ArgUndefined(1) does)
		"xopt": {
			Func: func(a float64, b jtypes.OptionalString) string {
				if b.IsSet() {
					return fmt.Sprintf("opt:%v:%s", a, b.String)
				}
				return fmt.Sprintf("opt:%v:unset", a)
			},
			UndefinedHandler: func(argv []reflect.Value) bool {
				for _, a := range argv {
					if !a.IsValid() {
						return true
					}
				}
				return false
			},
		},
		"tick": {Func: func(ms float64) float64 {
			if t := engine.Current(); t != nil && ms > 0 {
				r.sleepFor(t, int64(ms))
			}
			return ms
		}},
	}
}

// NestedCtxProbe: $xboth receives the context item when called with one
// argument; the argument is itself a call of $xboth under another context.
const NestedCtxProbe = `name.$xboth($$.nest.c.$xboth(1))`

func (r *runner) handlerLog(s string) {
	if t := engine.Current(); t != nil {
		res := &r.results[t.ID][t.Op()]
		res.Handlers = append(res.Handlers, s)
	}
}

func (r *runner) extFault(v interface{}) (interface{}, error) {
	t := engine.Current()
	if t == nil {
		// faulted reference: the controller evaluates the call alone with
		// the same fault plan
		if f := r.refFault; f != nil {
			r.refCalls++
			if r.refCalls == f.At {
				switch f.Kind {
				case "ext-error":
					return nil, &InjectedError{-1, -1, r.refCalls}
				case "ext-undefined":
					return nil, jtypes.ErrUndefined
				case "ext-panic":
					panic(injectedPanic{})
				}
			}
		}
		return v, nil
	}
	k := t.NextExtCall()
	f, _ := t.Fault.(*Fault)
	if f == nil || f.At != k {
		return v, nil
	}
	res := &r.results[t.ID][t.Op()]
	switch f.Kind {
	case "ext-error":
		res.Fired = f.Kind
		res.FiredErr = &InjectedError{t.ID, t.Op(), k}
		return nil, res.FiredErr
	case "ext-undefined":
		res.Fired = f.Kind
		return nil, jtypes.ErrUndefined
	case "ext-panic":
		res.Fired = f.Kind
		panic(injectedPanic{})
	case "ext-stall":
		res.Fired = f.Kind
		for i := 0; i < f.N; i++ {
			t.Yield(engine.SiteExt, nil)
		}
	}
	return v, nil
}

// compileExpr compiles and prepares an expression (controller or task).
func (r *runner) compileExpr(id, text, family string, vars map[string]string, exts bool, owner int) (*exprInst, error) {
	e, err := jsonata.Compile(text)
	if err != nil {
		return nil, err
	}
	ei := &exprInst{id: id, text: text, family: family, e: e, exts: exts, owner: owner, midx: -1}
	if len(vars) > 0 {
		ei.vars = map[string]*docInst{}
		m := map[string]interface{}{}
		for n, docID := range vars {
			d := r.docs[docID]
			if d == nil {
				panic("unknown doc " + docID)
			}
			ei.vars[n] = d
			m[n] = d.val
		}
		if err := e.RegisterVars(m); err != nil {
			return nil, err
		}
	}
	if exts && !r.spec.GlobalExts {
		if err := e.RegisterExts(r.harnessExts()); err != nil {
			return nil, err
		}
	}
	ei.str0 = e.String()
	ei.ast0 = oracle.DumpAST(jsonata.VerifRoot(e))
	return ei, nil
}

// dualOrder (auto-yield worker, C05): a program whose result does not expose
// member order - everything but family "mapord" - is evaluated once more
// with every map loop of the library running in the opposite order; two
// values that differ mean the outcome depends on Go map iteration order,
// i.e. differs from one evaluation to the next in the shipped library. Errors
// are left out ("which of their errors is reported" is sanctioned).
func (r *runner) dualOrder(res *Result, family, text, key string, ti, oi int, again func() string) {
	if !AutoYield || r.prop != "C05" || family == "mapord" || family == "fail" || family == "" {
		return
	}
	first := r.refs[key]
	setMapOrder(!r.spec.MapDescending)
	second := again()
	setMapOrder(r.spec.MapDescending)
	res.Probes["dual_order_references"]++
	isVal := func(o string) bool { return !strings.HasPrefix(o, "error:") && !strings.HasPrefix(o, "panic:") && !strings.HasPrefix(o, "compile-error") }
	if first != second && isVal(first) && isVal(second) {
		r.report(res, Violation{Property: "C05", Class: "map-order-dependence", Oracle: "dual-order-reference", Key: family + "|" + text, Task: ti, Op: oi,
			Detail: fmt.Sprintf("with map loops in one order: %s; in the opposite order: %s", clip(first, 200), clip(second, 200))})
	}
}

// reference evaluates (text, doc, vars, exts) alone, on a freshly compiled
// expression and freshly decoded inputs, right after a reset of the
// process-wide state: the stateless reference model.
func (r *runner) reference(text string, doc *docInst, vars map[string]*docInst, exts bool, bytes bool) (string, int) {
	r.resetGlobals()
	e, err := jsonata.Compile(text)
	if err != nil {
		return "compile-error:" + oracle.ErrKind(err), 0
	}
	exts = exts && !r.spec.GlobalExts
	if len(vars) > 0 {
		m := map[string]interface{}{}
		for n, d := range vars {
			m[n] = buildDoc(d.spec).val
		}
		if err := e.RegisterVars(m); err != nil {
			return "regvars-error", 0
		}
	}
	if exts {
		if err := e.RegisterExts(r.harnessExts()); err != nil {
			return "regexts-error", 0
		}
	}
	var in interface{}
	if doc != nil {
		in = buildDoc(doc.spec).val
	}
	engine.Ref.Steps = 0
	if bytes {
		out := func() (o string) {
			defer func() {
				if p := recover(); p != nil {
					o = panicKind(p)
				}
			}()
			b, err := e.EvalBytes([]byte(doc.spec.JSON))
			return oracle.BytesOutcome(b, err)
		}()
		return out, engine.Ref.Steps
	}
	out := safeEval(func() (interface{}, error) { return e.Eval(in) })
	return out, engine.Ref.Steps
}

func safeEval(f func() (interface{}, error)) (out string) {
	defer func() {
		if p := recover(); p != nil {
			out = panicKind(p)
		}
	}()
	v, err := f()
	return oracle.Outcome(v, err)
}

func panicKind(p interface{}) string {
	if _, ok := p.(injectedPanic); ok {
		return "panic:injected"
	}
	return fmt.Sprintf("panic:%T", p)
}

// Options control one execution.
type Options struct {
	// Now/Advance, if non-nil, provide the simulated clock (engine B) in
	// nanoseconds since the start of the run; EpochMs is the Unix time in
	// milliseconds of the start of the run.
	Now     func() int64
	Advance func(to int64)
	EpochMs int64
}

// maxSimNanos keeps the simulated clock representable: synctest keeps its
// fake time in int64 nanoseconds since the Unix epoch and starts in 2000, so
// instants after 2262-04-11 cannot be simulated.
const maxSimNanos = int64(255) * 365 * 86400 * 1e9

// sleepFor parks the task for ms simulated milliseconds (clamped to the
// representable span).
func (r *runner) sleepFor(t *engine.Task, ms int64) {
	if ms <= 0 {
		return
	}
	d := ms * int64(time.Millisecond)
	if d/int64(time.Millisecond) != ms || r.now()+d > maxSimNanos || r.now()+d < 0 {
		return
	}
	t.Sleep(d)
}

// Execute runs one Spec.
func Execute(spec *Spec, opt Options) *Result {
	InstallHooks()
	r := &runner{spec: spec, prop: spec.Property, docs: map[string]*docInst{}, exprs: map[string]*exprInst{},
		refs: map[string]string{}, refStep: map[string]int{}}
	res := &Result{Seed: spec.Seed, Property: spec.Property, Kind: spec.Kind, Tasks: len(spec.Tasks),
		Probes: map[string]int{}, Faults: map[string]int{}, Foreign: map[string]int{}, Families: map[string]int{},
		NodeTypes: map[string]int{}, Funcs: map[string]int{}}

	for _, d := range spec.Docs {
		r.docs[d.ID] = buildDoc(d)
		docRanges(r.docs[d.ID].val, &res.DocRanges, 0)
	}
	for _, d := range spec.Docs {
		// a member document aliases the very object inside its parent
		if p := r.docs[d.Parent]; d.Parent != "" && p != nil && d.Member != "" {
			r.docs[d.ID].val = p.val.(map[string]interface{})[d.Member]
		}
	}
	r.results = make([][]OpResult, len(spec.Tasks))
	r.priv = make([]map[string]*exprInst, len(spec.Tasks))
	r.tracked = make([][]trackedVar, len(spec.Tasks))
	for i, ops := range spec.Tasks {
		r.results[i] = make([]OpResult, len(ops))
		r.priv[i] = map[string]*exprInst{}
		res.Ops += len(ops)
	}
	cur = r
	defer func() { cur = nil }()
	// $random/$shuffle draw from math/rand's global source: one run, one seed
	rand.Seed(int64(spec.Seed)) //nolint:staticcheck // deliberate: reproducible global source
	r.epochMs = opt.EpochMs
	if setMapOrder(spec.MapDescending) {
		res.Faults["map-order-descending"]++
	}
	if shift := setClockShift(spec.ClockShiftSec); shift != 0 {
		r.epochMs += shift * 1000
		res.Faults["clock-far-future"]++
	}

	usesRegistry := spec.Kind == "reg-compile" || spec.Kind == "expr-registry"

	// ---- reference phase (controller alone) ----
	engine.Ref.NodeTypes, engine.Ref.Funcs = res.NodeTypes, res.Funcs
	defer func() { engine.Ref.NodeTypes, engine.Ref.Funcs = nil, nil }()
	refPhase := func() {
	if !usesRegistry && spec.Kind != "clock" { // clock values have no time-independent reference
		type tmeta struct {
			text   string
			vars   map[string]string
			exts   bool
			family string
		}
		meta := map[string]tmeta{}
		for _, es := range spec.Exprs {
			meta[es.ID] = tmeta{es.Text, es.Vars, es.Exts, es.Family}
		}
		for ti, ops := range spec.Tasks {
			pm := map[string]tmeta{}
			for oi, op := range ops {
				switch op.Kind {
				case "compile":
					pm[op.Expr] = tmeta{op.Text, op.Vars, op.Exts, op.Family}
				case "erebind":
					// (generated for single-task histories only: the order of
					// re-registrations and evaluations is the program order)
					m, priv := pm[op.Expr]
					if !priv {
						m = meta[op.Expr]
					}
					nv := map[string]string{}
					for n, id := range m.vars {
						nv[n] = id
					}
					for n, id := range op.Vars {
						nv[n] = id
					}
					m.vars = nv
					if priv {
						pm[op.Expr] = m
					} else {
						meta[op.Expr] = m
					}
				case "eval", "evalbytes":
					m, ok := pm[op.Expr]
					if !ok {
						m, ok = meta[op.Expr]
					}
					if !ok {
						panic(fmt.Sprintf("task %d: unknown expr %s", ti, op.Expr))
					}
					vars := map[string]*docInst{}
					for n, id := range m.vars {
						vars[n] = r.docs[id]
					}
					key := tripleKey(m.text, r.docs[op.Doc], vars, m.exts)
					if op.Kind == "evalbytes" {
						key += "\x00bytes"
					}
					if _, done := r.refs[key]; !done {
						r.refs[key], r.refStep[key] = r.reference(m.text, r.docs[op.Doc], vars, m.exts, op.Kind == "evalbytes")
						r.dualOrder(res, m.family, m.text, key, ti, oi, func() string {
							o, _ := r.reference(m.text, r.docs[op.Doc], vars, m.exts, op.Kind == "evalbytes")
							return o
						})
					}
					if f := op.Fault; f != nil && f.Kind != "abort" && op.Kind == "eval" {
						fk := key + faultKey(f)
						if _, done := r.refs[fk]; !done {
							r.refFault, r.refCalls = f, 0
							r.refs[fk], _ = r.reference(m.text, r.docs[op.Doc], vars, m.exts, false)
							r.refFault = nil
						}
					}
				}
			}
		}
	}
	}
	if !spec.ColdStart {
		refPhase()
	}

	// ---- set-up of the shared state (controller) ----
	r.resetGlobals()
	for _, es := range spec.Exprs {
		ei, err := r.compileExpr(es.ID, es.Text, es.Family, es.Vars, es.Exts, -1)
		if err != nil {
			res.Note = "controller compile failed: " + err.Error()
			return res
		}
		r.exprs[es.ID] = ei
	}
	if usesRegistry {
		r.model = newRegModel(spec)
		r.warm = make([]OpResult, len(spec.Warm))
		for i := range spec.Warm {
			wr := &r.warm[i]
			wr.Invoke = r.nextStamp()
			r.execRegistryOp(nil, -1, i, &spec.Warm[i], wr)
			wr.Return = r.nextStamp()
			wr.Done = true
		}
		res.Probes["registry_warm_ops"] += len(spec.Warm)
	}

	// ---- strategy ----
	var strat engine.Strategy
	srng := engine.NewRNG(spec.Seed, "schedule")
	switch spec.Strategy.Name {
	case "rw":
		strat = engine.NewRW(srng, spec.Strategy.Den)
	case "pct":
		strat = engine.NewPCT(srng, spec.Strategy.D, spec.Strategy.Est)
	case "pctw":
		// steps = yields at window sites; a fixed function of the spec
		// estimates how many there will be
		est := 0
		for _, ops := range spec.Tasks {
			est += 12 * len(ops)
		}
		strat = engine.NewPCTW(srng, spec.Strategy.D, est)
	case "window":
		strat = engine.NewWindow(srng, spec.Strategy.Den)
	case "duel":
		strat = engine.NewDuel(srng, spec.Strategy.Den)
	default:
		strat = engine.NewRTC(srng, spec.Strategy.Den)
	}
	if spec.Strategy.Name == "pct" && spec.Strategy.Est == 0 && spec.Switches == nil {
		est := 0
		for _, n := range r.refStep {
			est += 2*n + 6
		}
		for _, ops := range spec.Tasks {
			est += 3 * len(ops)
		}
		strat = engine.NewPCT(srng, spec.Strategy.D, est)
	}
	res.Strategy = strat.Name()
	if spec.Switches != nil {
		res.Strategy = "replay"
	}
	maxEvents := MaxEvents
	if AutoYield {
		maxEvents *= 5
	}
	if spec.MaxEvents > 0 {
		maxEvents = spec.MaxEvents
	}
	s := engine.New(strat, spec.Switches, maxEvents)
	s.Now, s.Advance = opt.Now, opt.Advance
	s.KeepEvents = DebugEvents
	if spec.Kind == "clock" && opt.Now != nil {
		// clock drift at preemptions: while a task is descheduled the clock
		// may move on (half of the runs; a quarter of the preemptions)
		crng := engine.NewRNG(spec.Seed, "clock")
		if crng.Chance(1, 2) {
			steps := []int64{50e3, 300e3, 1e6, 3e6, 40e6}
			s.Drift = func() int64 {
				if crng.Chance(1, 4) {
					return steps[crng.Intn(len(steps))]
				}
				return 0
			}
		}
	}
	r.sched = s
	for ti := range spec.Tasks {
		ti := ti
		s.AddTask(func(t *engine.Task) { r.taskBody(t, ti) })
	}
	start := int64(0)
	if opt.Now != nil {
		start = opt.Now()
	}
	s.Run()
	if opt.Now != nil {
		res.SimNanos = opt.Now() - start
	}
	if spec.ColdStart && !s.Deadlock && !s.StepBudget {
		// cold start: the tasks were the first to execute these code paths
		// in this process (lazy initialisations met concurrently); the
		// references are computed now
		refPhase()
	}

	// ---- after the join (or abandonment) ----
	res.Events = s.EventCount
	for site, v := range s.Preemptions() {
		s.Probes["preempt@"+site] += v
	}
	res.Switches = s.Recorded
	if spec.Switches != nil {
		res.Switches = spec.Switches
	}
	res.SwitchCount = s.SwitchCount
	if AutoYield {
		res.Strategy += "+auto"
	}
	for k, v := range s.Probes {
		if strings.HasPrefix(k, "preempt@a:") {
			res.Probes["preempt@auto"] += v
			res.WindowSw += v
			continue
		}
		res.Probes[k] = v
		if strings.HasPrefix(k, "preempt@") && k != "preempt@eval" && k != "preempt@op.end" {
			res.WindowSw += v
		}
	}
	res.ColdStart = spec.ColdStart
	if spec.ColdStart {
		res.Probes["cold_start_runs"]++
	}
	if s.Drifts > 0 {
		res.Faults["clock-drift-at-preemption"] += s.Drifts
	}
	res.Deadlock, res.StepBudget = s.Deadlock, s.StepBudget
	if s.Deadlock || s.StepBudget {
		res.Tainted = true
	}
	if s.Deadlock {
		r.report(res, Violation{Property: "C06", Class: "lock-progress", Oracle: "progress", Key: "lock-progress",
			Task: -1, Detail: "every unfinished task is blocked on globalRegistryMutex"})
	}
	r.hashEvents(res, s)
	if res.Tainted {
		return res
	}
	engine.Idle.Set(true)
	r.postChecks(res)
	engine.Idle.Set(false)
	return res
}

func (r *runner) lookupExpr(ti int, id string) *exprInst {
	if e, ok := r.priv[ti][id]; ok {
		return e
	}
	if e, ok := r.exprs[id]; ok {
		return e
	}
	panic(fmt.Sprintf("task %d: unknown expr %q", ti, id))
}

func (r *runner) now() int64 {
	if r.sched.Now != nil {
		return r.sched.Now()
	}
	return 0
}

func (r *runner) taskBody(t *engine.Task, ti int) {
	ops := r.spec.Tasks[ti]
	for oi := range ops {
		op := &ops[oi]
		var f interface{}
		if op.Fault != nil {
			f = op.Fault
		}
		t.BeginOp(oi, f)
		res := &r.results[ti][oi]
		res.Invoke = r.nextStamp()
		res.T0 = r.now()
		r.execOp(t, ti, oi, op, res)
		res.T1 = r.now()
		res.Return = r.nextStamp()
		res.Steps = t.Steps()
		res.Done = true
		r.afterOp(ti, oi, op, res)
		t.Yield(engine.SiteOpEnd, nil)
	}
}

func (r *runner) execOp(t *engine.Task, ti, oi int, op *Op, res *OpResult) {
	defer func() {
		if p := recover(); p != nil {
			res.Outcome = panicKind(p)
		}
	}()
	switch op.Kind {
	case "eval":
		ei := r.lookupExpr(ti, op.Expr)
		var in interface{}
		if d := r.docs[op.Doc]; d != nil {
			in = d.val
		}
		res.vars, res.varsAt = ei.vars, true
		v, err := ei.e.Eval(in)
		res.Err = err
		res.Outcome = oracle.Outcome(v, err)
		if err == nil {
			res.val = v
		}
	case "eregresult":
		// the value returned by an earlier evaluation of this task becomes a
		// registered variable ($prev) of another expression: from now on it
		// is "a value registered as a variable" and must never change
		ei := r.lookupExpr(ti, op.Expr)
		src := &r.results[ti][op.Version]
		if src.val == nil {
			res.Outcome = "nothing to register"
			return
		}
		if err := ei.e.RegisterVars(map[string]interface{}{"prev": src.val}); err != nil {
			res.Outcome = "err"
			return
		}
		ei.resultVar = true
		r.tracked[ti] = append(r.tracked[ti], trackedVar{val: src.val, canon: oracle.Canon(src.val), from: op.Version})
		res.Outcome = "ok"
	case "evalbytes":
		ei := r.lookupExpr(ti, op.Expr)
		res.vars, res.varsAt = ei.vars, true
		out, err := ei.e.EvalBytes([]byte(r.docs[op.Doc].spec.JSON))
		res.Err = err
		res.Outcome = oracle.BytesOutcome(out, err)
	case "erebind":
		// an Expr-level variable is registered again with another value:
		// from now on the expression's bindings are the new ones
		ei := r.lookupExpr(ti, op.Expr)
		nv := map[string]*docInst{}
		for n, d := range ei.vars {
			nv[n] = d
		}
		reg := map[string]interface{}{}
		for n, id := range op.Vars {
			nv[n] = r.docs[id]
			reg[n] = r.docs[id].val
		}
		if err := ei.e.RegisterVars(reg); err != nil {
			res.Outcome = "err"
			return
		}
		ei.vars = nv
		res.Outcome = "ok"
	case "string":
		ei := r.lookupExpr(ti, op.Expr)
		res.Outcome = ei.e.String()
	case "compile":
		ei, err := r.compileExpr(op.Expr, op.Text, op.Family, op.Vars, op.Exts, ti)
		if err != nil {
			res.Outcome = "compile-error:" + oracle.ErrKind(err)
			return
		}
		r.priv[ti][op.Expr] = ei
		res.Outcome = "compiled"
	case "usleep": // microseconds
		if d := int64(op.Version) * int64(time.Microsecond); d > 0 && r.now()+d < maxSimNanos {
			t.Sleep(d)
		}
		res.Outcome = "slept"
	case "sleep":
		r.sleepFor(t, int64(op.Version))
		res.Outcome = "slept"
	case "gregvars", "gregexts", "eregvars", "eregexts", "probe":
		r.execRegistryOp(t, ti, oi, op, res)
	default:
		panic("unknown op kind " + op.Kind)
	}
}

// afterOp runs the per-operation invariants on the task's own goroutine
// (it only reads state that every task may read).
func (r *runner) afterOp(ti, oi int, op *Op, res *OpResult) {
	switch op.Kind {
	case "eval", "evalbytes", "string", "probe":
	default:
		return
	}
	ei, ok := r.priv[ti][op.Expr]
	if !ok {
		ei = r.exprs[op.Expr]
	}
	if ei == nil {
		return
	}
	key := ei.family + "|" + ei.text
	for i := range r.tracked[ti] {
		tv := &r.tracked[ti][i]
		if now := oracle.Canon(tv.val); now != tv.canon && !tv.reported {
			tv.reported = true
			res.Checks = append(res.Checks, Violation{Property: "C07", Class: "var-changed", Oracle: "result-variable", Key: key,
				Task: ti, Op: oi, Detail: fmt.Sprintf("the result of operation %d, registered as $prev, was %s and is now %s", tv.from, clip(tv.canon, 200), clip(now, 200))})
		}
	}
	if s := ei.e.String(); s != ei.str0 {
		res.Checks = append(res.Checks, Violation{Property: "C05", Class: "syntax-tree-changed", Oracle: "string", Key: key,
			Task: ti, Op: oi, Detail: fmt.Sprintf("String() was %q, now %q", ei.str0, s)})
	} else if a := oracle.DumpAST(jsonata.VerifRoot(ei.e)); a != ei.ast0 {
		res.Checks = append(res.Checks, Violation{Property: "C05", Class: "syntax-tree-changed", Oracle: "ast-dump", Key: key,
			Task: ti, Op: oi, Detail: "syntax tree differs from the tree right after Compile"})
	}
	if d := r.docs[op.Doc]; d != nil && op.Kind == "eval" {
		if !oracle.DocEqual(d.val, d.pristine) {
			res.Checks = append(res.Checks, Violation{Property: "C07", Class: "doc-changed", Oracle: "doc-deep-equal", Key: key,
				Task: ti, Op: oi, Detail: fmt.Sprintf("document %s is now %s", d.spec.ID, clip(oracle.Canon(d.val), 300))})
		}
	}
	for n, d := range ei.vars {
		if !oracle.DocEqual(d.val, d.pristine) {
			res.Checks = append(res.Checks, Violation{Property: "C07", Class: "var-changed", Oracle: "var-deep-equal", Key: key,
				Task: ti, Op: oi, Detail: fmt.Sprintf("variable $%s (doc %s) is now %s", n, d.spec.ID, clip(oracle.Canon(d.val), 300))})
		}
	}
}

func clip(s string, n int) string {
	if len(s) > n {
		return s[:n] + "..."
	}
	return s
}

// report files a violation under the check that is running, or counts it as
// a foreign observation when it belongs to another property.
func (r *runner) report(res *Result, v Violation) {
	if v.Property == r.prop {
		res.Violations = append(res.Violations, v)
		return
	}
	res.Foreign[v.Property+":"+v.Class]++
}

// postChecks evaluates the oracles over the recorded results.
func (r *runner) postChecks(res *Result) {
	concurrent := len(r.spec.Tasks) > 1
	seenPos := map[string]map[string]bool{}
	nontriv := map[string]bool{}
	outs := map[string]bool{}
	defer func() {
		for k := range outs {
			res.Outs = append(res.Outs, k)
		}
		sort.Strings(res.Outs)
		for k := range nontriv {
			res.NontrivKeys = append(res.NontrivKeys, k)
		}
		sort.Strings(res.NontrivKeys)
	}()
	for ti, ops := range r.spec.Tasks {
		for oi := range ops {
			op := &ops[oi]
			or := &r.results[ti][oi]
			if !or.Done {
				continue
			}
			if or.Fired != "" {
				res.Faults[or.Fired]++
			}
			for _, v := range or.Checks {
				r.report(res, v)
			}
			if op.Kind != "eval" && op.Kind != "evalbytes" {
				continue
			}
			ei, ok := r.priv[ti][op.Expr]
			if !ok {
				ei = r.exprs[op.Expr]
			}
			if ei == nil {
				continue
			}
			res.Families[ei.family]++
			key := ei.family + "|" + ei.text
			switch ei.family {
			case "transform", "outside", "arrn", "arrs", "obj", "varops":
				if d := r.docs[op.Doc]; d != nil {
					h := sha256.Sum256([]byte(ei.text + "\x00" + d.spec.JSON))
					nontriv[hex.EncodeToString(h[:6])] = true
				}
			}
			if r.model != nil || ei.resultVar {
				continue
			}
			vars := ei.vars
			if or.varsAt {
				vars = or.vars
			}
			tk := tripleKey(ei.text, r.docs[op.Doc], vars, ei.exts)
			if op.Kind == "evalbytes" {
				tk += "\x00bytes"
			}
			ref, ok := r.refs[tk]
			if !ok {
				continue
			}
			// history-position statistics (C05 reach measure)
			h := sha256.Sum256([]byte(tk))
			hk := hex.EncodeToString(h[:6])
			if seenPos[hk] == nil {
				seenPos[hk] = map[string]bool{}
			}
			seenPos[hk][fmt.Sprintf("%d.%d", ti, oi)] = true
			if or.Fired == "" && r.spec.Kind == "history" && !AutoYield {
				// (not from the auto-yield worker: its map order is a per-run
				// choice, and the driver re-executes cross findings in the
				// hook worker)
				// (triple, outcome) pairs for the cross-process comparison
				// done by the driver: the same call must give the same
				// outcome in every process, whatever ran there before
				oh := sha256.Sum256([]byte(or.Outcome))
				outs[hk+":"+hex.EncodeToString(oh[:6])] = true
				if res.OutTexts == nil {
					res.OutTexts = map[string]string{}
				}
				res.OutTexts[hk] = clip(ei.text, 200) + " on " + op.Doc + " (" + op.Kind + ") -> " + clip(or.Outcome, 120)
			}

			r.extChecks(res, ti, oi, op, or, ei, key, ref)
			if or.Fired == "abort" {
				// narrow relaxation: the aborted operation's own outcome is
				// not compared with the fault-free reference
				continue
			}
			if or.Fired != "" {
				// extension faults: compare with the reference that was
				// evaluated alone under the same fault plan
				fref, ok := r.refs[tk+faultKey(op.Fault)]
				if !ok || op.Kind != "eval" {
					continue
				}
				ref = fref
			}
			if or.Outcome != ref {
				v := Violation{Key: key, Task: ti, Op: oi,
					Detail: fmt.Sprintf("outcome %s, reference (same call run alone on a fresh Expr) %s", clip(or.Outcome, 200), clip(ref, 200))}
				if concurrent && r.spec.Kind != "frame-seq" && r.spec.Kind != "history" {
					v.Property, v.Class, v.Oracle = "C06", "isolation", "reference-outcome"
				} else {
					v.Property, v.Class, v.Oracle = "C05", "history-dependence", "reference-outcome"
				}
				r.report(res, v)
			}
		}
	}
	for hk, pos := range seenPos {
		if len(pos) >= 2 {
			res.Triples = append(res.Triples, hk)
		}
	}
	sort.Strings(res.Triples)
	// final frame condition over every document and every expression
	ids := make([]string, 0, len(r.docs))
	for id := range r.docs {
		ids = append(ids, id)
	}
	sort.Strings(ids)
	for _, id := range ids {
		d := r.docs[id]
		if !oracle.DocEqual(d.val, d.pristine) {
			r.report(res, Violation{Property: "C07", Class: "doc-changed", Oracle: "doc-deep-equal-final", Key: "final|" + id, Task: -1,
				Detail: fmt.Sprintf("document %s is now %s", id, clip(oracle.Canon(d.val), 300))})
		}
	}
	eids := make([]string, 0, len(r.exprs))
	for id := range r.exprs {
		eids = append(eids, id)
	}
	sort.Strings(eids)
	for _, id := range eids {
		ei := r.exprs[id]
		if ei.e.String() != ei.str0 || oracle.DumpAST(jsonata.VerifRoot(ei.e)) != ei.ast0 {
			r.report(res, Violation{Property: "C05", Class: "syntax-tree-changed", Oracle: "ast-final", Key: ei.family + "|" + ei.text, Task: -1,
				Detail: fmt.Sprintf("String() after the run: %q", clip(ei.e.String(), 200))})
		}
	}
	if r.model != nil {
		r.registryChecks(res)
	}
	if r.spec.Kind == "clock" {
		r.clockChecks(res)
	}
}

// extChecks evaluates the extension-contract oracles (C20) for one operation.
func (r *runner) extChecks(res *Result, ti, oi int, op *Op, or *OpResult, ei *exprInst, key, ref string) {
	switch or.Fired {
	case "ext-error":
		if or.Err != or.FiredErr {
			r.report(res, Violation{Property: "C20", Class: "ext-error-lost", Oracle: "error-identity", Key: key, Task: ti, Op: oi,
				Detail: fmt.Sprintf("extension returned an error, Eval outcome is %s", clip(or.Outcome, 200))})
		}
	case "ext-undefined":
		// decided only for the two probe shapes whose meaning is fixed by
		// the language: a call that is "no value"
		want := ""
		switch {
		case ei.text == `$xfault(name)`:
			want = "error:undefined"
		case ei.text == `$exists($xfault(name))`:
			want = "false"
		}
		if want != "" && or.Outcome != want {
			r.report(res, Violation{Property: "C20", Class: "ext-undefined-lost", Oracle: "undefined-probe", Key: key, Task: ti, Op: oi,
				Detail: fmt.Sprintf("extension returned jtypes.ErrUndefined, outcome %s, want %s", clip(or.Outcome, 200), want)})
		}
	}
	if or.UndefIn > 0 && strings.Contains(ei.text, "$xundef(nosuch)") && !strings.Contains(ei.text, "$xundef(name)") {
		r.report(res, Violation{Property: "C20", Class: "ext-handler-order", Oracle: "undefined-handler", Key: key, Task: ti, Op: oi,
			Detail: "UndefinedHandler returned true but the function body was entered"})
	}
	// "prepend the context item": the item of the call's OWN site, also when
	// the same extension is called inside its own argument list. Decided for
	// one fixed shape whose value follows from the document alone.
	if ei.text == NestedCtxProbe && op.Kind == "eval" && or.Fired == "" && len(ei.vars) == 0 {
		if d := r.docs[op.Doc]; d != nil {
			if m, ok := d.pristine.(map[string]interface{}); ok {
				if name, ok := m["name"].(string); ok {
					if want := strconv.Quote("both:" + name); or.Outcome != want {
						r.report(res, Violation{Property: "C20", Class: "ext-context-foreign", Oracle: "nested-context-probe", Key: key, Task: ti, Op: oi,
							Detail: fmt.Sprintf("outer call must receive its own context item %q, outcome %s", name, clip(or.Outcome, 200))})
					}
				}
			}
		}
	}
	// An omitted trailing Optional parameter is "left unset": it is not an
	// argument of the call, so an UndefinedHandler that returns true when any
	// of the arguments it is shown is undefined must let these calls through.
	// Decided for fixed shapes whose value follows from the document alone.
	if strings.HasPrefix(ei.text, "$xopt(") && op.Kind == "eval" && or.Fired == "" && len(ei.vars) == 0 {
		if d := r.docs[op.Doc]; d != nil {
			if m, ok := d.pristine.(map[string]interface{}); ok {
				n, nok := m["n"].(float64)
				name, sok := m["name"].(string)
				want := ""
				switch {
				case ei.text == `$xopt(n)` && nok:
					want = strconv.Quote(fmt.Sprintf("opt:%v:unset", n))
				case ei.text == `$xopt(n, name)` && nok && sok:
					want = strconv.Quote(fmt.Sprintf("opt:%v:%s", n, name))
				case ei.text == `$xopt(nosuch)`, ei.text == `$xopt(n, nosuch)`:
					want = "error:undefined"
				}
				if want != "" && or.Outcome != want {
					r.report(res, Violation{Property: "C20", Class: "ext-optional-handler", Oracle: "optional-probe", Key: key, Task: ti, Op: oi,
						Detail: fmt.Sprintf("outcome %s, want %s", clip(or.Outcome, 200), want)})
				}
			}
		}
	}
	// Extension doc: EvalContextHandler true => the context is inserted as
	// the first argument; UndefinedHandler is called "with the same
	// arguments" as Func. So after a context handler that returned true for n
	// arguments, the undefined handler must see n+1 arguments, and when it
	// then returns false the body must be entered.
	for i, h := range or.Handlers {
		if strings.HasPrefix(h, "U:") && (i == 0 || !strings.HasPrefix(or.Handlers[i-1], "C:")) {
			r.report(res, Violation{Property: "C20", Class: "ext-handler-order", Oracle: "handler-arguments", Key: key, Task: ti, Op: oi,
				Detail: fmt.Sprintf("UndefinedHandler ran before EvalContextHandler had a chance to insert the context (handler log %v)", or.Handlers)})
			break
		}
	}
	for i := 0; i+1 < len(or.Handlers); i++ {
		var n int
		var ret bool
		if _, err := fmt.Sscanf(or.Handlers[i], "C:%d:%t", &n, &ret); err != nil || !ret {
			continue
		}
		var m int
		if _, err := fmt.Sscanf(or.Handlers[i+1], "U:%d", &m); err == nil && m != n+1 {
			r.report(res, Violation{Property: "C20", Class: "ext-handler-order", Oracle: "handler-arguments", Key: key, Task: ti, Op: oi,
				Detail: fmt.Sprintf("EvalContextHandler returned true for %d argument(s) but UndefinedHandler then saw %d argument(s) (handler log %v)", n, m, or.Handlers)})
			break
		}
	}
	if len(or.CtxArgs) > 0 && op.Kind == "eval" && len(ei.vars) == 0 {
		// every context argument must be a string of the task's own document
		doc := r.docs[op.Doc]
		if doc != nil {
			own := doc.spec.JSON
			for _, a := range or.CtxArgs {
				if !strings.Contains(own, `"`+a+`"`) {
					r.report(res, Violation{Property: "C20", Class: "ext-context-foreign", Oracle: "context-argument", Key: key, Task: ti, Op: oi,
						Detail: fmt.Sprintf("$xctx received context %q which does not occur in the task's document %s", a, doc.spec.ID)})
					break
				}
			}
		}
	}
}

// hashEvents computes the event-log hash: the schedule (task, op, yield,
// site, next) plus every operation outcome. Addresses and map-order dependent
// data never enter it.
func (r *runner) hashEvents(res *Result, s *engine.Sched) {
	h := s.EventHash() // the engine streamed the schedule into it
	if !res.Tainted {
		for ti := range r.results {
			for oi := range r.results[ti] {
				or := &r.results[ti][oi]
				out := or.Outcome
				if r.spec.Kind == "clock" {
					out = "" // time values are checked by the clock oracle; they are reproducible but bulky
				}
				fmt.Fprintf(h, "R %d %d %v %s %s\n", ti, oi, or.Done, out, or.Fired)
			}
		}
	}
	if DebugEvents {
		var b strings.Builder
		for _, ev := range s.Events {
			fmt.Fprintf(&b, "%d t%d op%d y%d %s -> %d\n", ev.Seq, ev.Task, ev.Op, ev.Yield, ev.Site, ev.Next)
		}
		res.Note += b.String()
	}
	res.EventHash = hex.EncodeToString(h.Sum(nil))
	res.SchedSig = hex.EncodeToString(s.SigSum()[:8])
}

// MarshalSpec renders a spec as indented JSON.
func MarshalSpec(s *Spec) []byte {
	b, err := json.MarshalIndent(s, "", " ")
	if err != nil {
		panic(err)
	}
	return b
}
