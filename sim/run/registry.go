package run

import (
	"encoding/json"
	"fmt"
	"sort"
	"strings"
	"time"

	"github.com/anishathalye/porcupine"
	jsonata "github.com/blues/jsonata-go"
	"github.com/blues/jsonata-go/jtypes"

	"verif/sim/engine"
)

// Registry slots. Variables: va, vb, the order-symmetric pair (vp,vq) and
// `count` (shadows a built-in). Extensions: fa, the pair (fp,fq) and `now`
// (shadows a time callable).
var RegNames = []string{"va", "vb", "vp", "vq", "count", "fa", "fp", "fq", "now"}

const nSlots = 9
const maxModelExprs = 8

func slotOf(name string) int {
	for i, n := range RegNames {
		if n == name {
			return i
		}
	}
	panic("unknown registry name " + name)
}

// IsExtName reports whether the registry name is an extension slot.
func IsExtName(name string) bool { return slotOf(name) >= 5 }

// ProbeText is the expression whose value is the vector of versions visible
// to an Expr.
var ProbeText = func() string {
	var parts []string
	for _, n := range RegNames {
		switch {
		case n == "now":
			parts = append(parts, `($t := $now(); $type($t) = "number" ? $t : 0)`)
		case IsExtName(n):
			parts = append(parts, fmt.Sprintf(`($type($%s) = "function" ? $%s() : 0)`, n, n))
		default:
			parts = append(parts, fmt.Sprintf(`($type($%s) = "number" ? $%s : 0)`, n, n))
		}
	}
	return "[" + strings.Join(parts, ", ") + "]"
}()

type regState struct {
	G [nSlots]int
	R [maxModelExprs][nSlots]int
}

type regInput struct {
	Kind    string // greg ereg compile probe
	Expr    int
	Slots   []int
	Version int
	Invalid bool
}

type regModel struct {
	exprIdx map[string]int // "task/exprID" -> index
}

func newRegModel(spec *Spec) *regModel {
	m := &regModel{exprIdx: map[string]int{}}
	for ti, ops := range spec.Tasks {
		for _, op := range ops {
			if op.Kind == "compile" {
				k := fmt.Sprintf("%d/%s", ti, op.Expr)
				if _, ok := m.exprIdx[k]; !ok {
					m.exprIdx[k] = len(m.exprIdx)
				}
			}
		}
	}
	if len(m.exprIdx) > maxModelExprs {
		panic("too many expressions for the registry model")
	}
	return m
}

func (r *runner) execRegistryOp(t *engine.Task, ti, oi int, op *Op, res *OpResult) {
	switch op.Kind {
	case "gregvars", "eregvars":
		m := map[string]interface{}{}
		for _, n := range op.Names {
			m[n] = float64(op.Version)
		}
		if op.Invalid == "name" {
			// an invalid name, alone or next to valid entries: the whole
			// registration must be rejected and nothing may change - now or
			// in any later registration
			if op.Version%2 == 0 {
				m = map[string]interface{}{}
			}
			m[badNames[op.Version%len(badNames)]] = float64(op.Version)
		}
		var err error
		if op.Kind == "gregvars" {
			err = jsonata.RegisterVars(m)
		} else {
			err = r.lookupExpr(ti, op.Expr).e.RegisterVars(m)
		}
		res.Outcome = okErr(err)
	case "gregexts", "eregexts":
		v := float64(op.Version)
		m := map[string]jsonata.Extension{}
		for _, n := range op.Names {
			m[n] = jsonata.Extension{Func: func() float64 { return v }}
		}
		switch op.Invalid {
		case "name":
			if op.Version%2 == 0 {
				m = map[string]jsonata.Extension{}
			}
			m[badNames[op.Version%len(badNames)]] = jsonata.Extension{Func: func() float64 { return v }}
		case "func":
			// three invalid function shapes; each is offered many times in
			// one process (a shape rejected once must be rejected again)
			var bad interface{}
			switch op.Version % 3 {
			case 0:
				bad = func() (float64, float64) { return v, v } // second result is not an error
			case 1:
				bad = func(a jtypes.OptionalString, b string) float64 { return v } // non-optional after optional
			default:
				bad = func(a ...jtypes.OptionalString) float64 { return v } // optional variadic
			}
			m = map[string]jsonata.Extension{op.Names[0]: {Func: bad}}
		}
		var err error
		if op.Kind == "gregexts" {
			err = jsonata.RegisterExts(m)
		} else {
			err = r.lookupExpr(ti, op.Expr).e.RegisterExts(m)
		}
		res.Outcome = okErr(err)
	case "probe":
		ei := r.lookupExpr(ti, op.Expr)
		v, err := ei.e.Eval(nil)
		res.Err = err
		res.Outcome = outcomeJSON(v, err)
	}
}

// badNames are not valid names (a valid name consists of letters, digits and
// underscores only).
var badNames = []string{"bad name", "bad-name", "é-", "größe.x", "日 本", "a$", "", "x.y", "tab\tname"}

func okErr(err error) string {
	if err != nil {
		return "err"
	}
	return "ok"
}

func outcomeJSON(v interface{}, err error) string {
	if err != nil {
		return "error:" + err.Error()
	}
	b, e := json.Marshal(v)
	if e != nil {
		return "error:marshal:" + e.Error()
	}
	return string(b)
}

func parseVector(s string) ([nSlots]int, bool) {
	var out [nSlots]int
	var fs []float64
	if err := json.Unmarshal([]byte(s), &fs); err != nil || len(fs) != nSlots {
		return out, false
	}
	for i, f := range fs {
		out[i] = int(f)
	}
	return out, true
}

var regPorcupine = porcupine.Model{
	Init: func() interface{} { return regState{} },
	Step: func(state, input, output interface{}) (bool, interface{}) {
		st := state.(regState)
		in := input.(regInput)
		out := output.(string)
		switch in.Kind {
		case "greg":
			if in.Invalid {
				return out == "err", st
			}
			for _, s := range in.Slots {
				st.G[s] = in.Version
			}
			return out == "ok", st
		case "ereg":
			if in.Invalid {
				return out == "err", st
			}
			for _, s := range in.Slots {
				st.R[in.Expr][s] = in.Version
			}
			return out == "ok", st
		case "compile":
			st.R[in.Expr] = st.G
			return out == "compiled", st
		case "probe":
			v, ok := parseVector(out)
			return ok && v == st.R[in.Expr], st
		}
		return false, st
	},
	DescribeOperation: func(input, output interface{}) string {
		in := input.(regInput)
		return fmt.Sprintf("%s(e%d %v v%d inv=%v) -> %v", in.Kind, in.Expr, in.Slots, in.Version, in.Invalid, output)
	},
}

// registryChecks builds the invoke/return history of the registry
// operations, appends a final probe of every expression (evaluated by the
// controller after the join) and checks linearizability against the
// sequential model.
func (r *runner) registryChecks(res *Result) {
	var ops []porcupine.Operation
	var desc []string
	for wi := range r.spec.Warm {
		op, or := &r.spec.Warm[wi], &r.warm[wi]
		in := regInput{Kind: "greg", Version: op.Version, Invalid: op.Invalid != ""}
		for _, n := range op.Names {
			in.Slots = append(in.Slots, slotOf(n))
		}
		ops = append(ops, porcupine.Operation{ClientId: 1000, Input: in, Call: int64(or.Invoke), Output: or.Outcome, Return: int64(or.Return)})
		desc = append(desc, fmt.Sprintf("warm [%d,%d] %s", or.Invoke, or.Return, regPorcupine.DescribeOperation(in, or.Outcome)))
	}
	for ti, tops := range r.spec.Tasks {
		for oi := range tops {
			op := &tops[oi]
			or := &r.results[ti][oi]
			if !or.Done {
				continue
			}
			in := regInput{Version: op.Version, Invalid: op.Invalid != ""}
			switch op.Kind {
			case "gregvars", "gregexts":
				in.Kind = "greg"
			case "eregvars", "eregexts":
				in.Kind = "ereg"
				in.Expr = r.model.exprIdx[fmt.Sprintf("%d/%s", ti, op.Expr)]
			case "compile":
				in.Kind = "compile"
				in.Expr = r.model.exprIdx[fmt.Sprintf("%d/%s", ti, op.Expr)]
			case "probe":
				in.Kind = "probe"
				in.Expr = r.model.exprIdx[fmt.Sprintf("%d/%s", ti, op.Expr)]
			default:
				continue
			}
			for _, n := range op.Names {
				in.Slots = append(in.Slots, slotOf(n))
			}
			if in.Invalid && or.Outcome == "ok" {
				r.report(res, Violation{Property: "C20", Class: "registry-invalid-accepted", Oracle: "registration-result",
					Key: "invalid|" + op.Kind + "|" + op.Invalid, Task: ti, Op: oi,
					Detail: "registration of an invalid " + op.Invalid + " returned a nil error"})
			}
			ops = append(ops, porcupine.Operation{ClientId: ti, Input: in, Call: int64(or.Invoke), Output: or.Outcome, Return: int64(or.Return)})
			desc = append(desc, fmt.Sprintf("t%d [%d,%d] %s", ti, or.Invoke, or.Return, regPorcupine.DescribeOperation(in, or.Outcome)))
		}
	}
	// final probes by the controller (after the join: ordered after everything)
	for ti := range r.priv {
		ids := make([]string, 0, len(r.priv[ti]))
		for id := range r.priv[ti] {
			ids = append(ids, id)
		}
		sort.Strings(ids)
		for _, id := range ids {
			ei := r.priv[ti][id]
			idx, ok := r.model.exprIdx[fmt.Sprintf("%d/%s", ti, id)]
			if !ok {
				continue
			}
			out := func() (o string) {
				defer func() {
					if p := recover(); p != nil {
						o = panicKind(p)
					}
				}()
				v, err := ei.e.Eval(nil)
				return outcomeJSON(v, err)
			}()
			c := r.nextStamp()
			in := regInput{Kind: "probe", Expr: idx}
			ops = append(ops, porcupine.Operation{ClientId: len(r.spec.Tasks) + idx, Input: in, Call: int64(c), Output: out, Return: int64(r.nextStamp())})
			desc = append(desc, fmt.Sprintf("final [%d] %s", c, regPorcupine.DescribeOperation(in, out)))
		}
	}
	if len(ops) == 0 {
		return
	}
	// reach probe: a package-level registration whose invoke/return interval
	// overlaps a compile or probe of another task
	for i := range ops {
		if ops[i].Input.(regInput).Kind != "greg" {
			continue
		}
		for j := range ops {
			k := ops[j].Input.(regInput).Kind
			if (k == "compile" || k == "probe") && ops[i].ClientId != ops[j].ClientId &&
				ops[i].Call < ops[j].Return && ops[j].Call < ops[i].Return {
				res.Probes["reg_concurrent"]++
			}
		}
	}
	switch porcupine.CheckOperationsTimeout(regPorcupine, ops, 8*time.Second) {
	case porcupine.Ok:
		res.Linearized++
	case porcupine.Unknown:
		res.Inconcl++
	case porcupine.Illegal:
		prop := "C20"
		if r.prop == "C06" {
			prop = "C06"
		}
		r.report(res, Violation{Property: prop, Class: "registry-nonlinearizable", Oracle: "porcupine", Key: "registry-history", Task: -1,
			Detail: "history has no linearization against the registry model:\n  " + strings.Join(desc, "\n  ")})
	}
}
