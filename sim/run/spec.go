// Package run turns a Spec (the explicit, replayable description of one
// simulated run) into an execution of the real library under the engine and
// evaluates the oracles.
package run

import (
	"verif/sim/engine"
)

// Spec is one simulated run. A Spec with Switches == nil is executed in
// generation mode (the strategy draws from the schedule stream of Seed and
// the decisions taken are recorded); with Switches != nil it is a replay
// that draws nothing.
type Spec struct {
	Format   int             `json:"format"`
	Property string          `json:"property"`
	Engine   string          `json:"engine"` // "A" (Go scheduler only) or "B" (synctest clock)
	Seed     uint64          `json:"seed"`
	Kind     string          `json:"kind"`
	Strategy StratSpec       `json:"strategy"`
	Docs     []DocSpec       `json:"docs"`
	Exprs    []ExprSpec      `json:"exprs"`
	Tasks    [][]Op          `json:"tasks"`
	Switches []engine.Switch `json:"switches"`
	Expect   *Expect         `json:"expect,omitempty"`
	// GlobalExts registers the harness extensions at package level (one set
	// of function objects shared by all Exprs) instead of on every Expr.
	GlobalExts bool `json:"global_exts,omitempty"`
	// MaxEvents overrides the default bound on scheduling events (long
	// "soak" histories).
	MaxEvents int `json:"max_events,omitempty"`
	// Auto: the run was executed by the auto-yield worker (built against the
	// instrumented copy of the library: a yield before every statement).
	// Event logs of the two workers are not comparable, so a replay must use
	// the same kind of worker.
	Auto bool `json:"auto,omitempty"`
	// ColdStart: the reference evaluations run AFTER the tasks instead of
	// before them, so that the tasks are the first to execute the library's
	// code paths in the process (first-use initialisation met concurrently).
	// Set by the worker for the first run of a process.
	ColdStart bool `json:"cold_start,omitempty"`
	// ClockShiftSec (clock runs of the auto-yield worker only, whose copy of
	// the library reads the clock through a seam of ours): the library's
	// clock is the simulated clock plus this many seconds, which takes the
	// wall clock of the run beyond 2262-04-11, the last instant that fits
	// into 64-bit nanoseconds (testing/synctest itself cannot go there).
	ClockShiftSec int64 `json:"clock_shift_s,omitempty"`
	// MapDescending (auto-yield worker only): every loop of the instrumented
	// copy over a Go map visits the keys in descending instead of ascending
	// order. In that copy map iteration order is the simulator's choice, not
	// the runtime's.
	MapDescending bool `json:"map_descending,omitempty"`
	// Warm (registry kinds): package-level registrations performed by the
	// controller before the tasks start, so that the tasks re-register names
	// that already exist (the registry does not grow while they overlap).
	Warm []Op `json:"warm,omitempty"`
}

// StratSpec names the scheduling strategy of a generated run.
type StratSpec struct {
	Name string `json:"name"` // rw | pct | window | rtc
	Den  int    `json:"den,omitempty"`
	D    int    `json:"d,omitempty"`
	Est  int    `json:"est,omitempty"` // estimated total steps (pct)
}

// DocSpec is one input document. All operations naming the same ID use the
// same Go value (that is how documents are shared between tasks).
type DocSpec struct {
	ID   string `json:"id"`
	JSON string `json:"json"`
	// Alias, if set, makes member Alias[0] of the decoded document refer to
	// the same Go object as member Alias[1] (shared sub-structure).
	Alias []string `json:"alias,omitempty"`
	// Member/Parent: the document is member Member of the decoded JSON and,
	// at run time, the very same Go object as that member of document Parent.
	Member string `json:"member,omitempty"`
	Parent string `json:"parent,omitempty"`
	// Subslice, if set to [name, source, n], adds member `name` holding the
	// first n elements of the array member `source` AS A SUB-SLICE: same
	// backing array, spare capacity reaching into the rest of `source`.
	Subslice []string `json:"subslice,omitempty"`
	// Typed replaces some generic containers of the decoded document by
	// Go-typed ones ([]map[string]interface{}, []float64, []string,
	// map[string]map[string]interface{}).
	Typed bool `json:"typed,omitempty"`
	// Carve re-homes every []interface{} of the decoded document as a window
	// of ONE backing array (windows placed in a fixed pseudo-random order, no
	// gaps): the spare capacity of each array of the document is the storage
	// of other arrays of the same document, as with a caller that slices one
	// buffer. An append into a caller's array then changes the document.
	Carve bool `json:"carve,omitempty"`
}

// ExprSpec is an expression compiled by the controller before the tasks
// start; it may be used by every task.
type ExprSpec struct {
	ID     string            `json:"id"`
	Text   string            `json:"text"`
	Family string            `json:"family,omitempty"`
	Vars   map[string]string `json:"vars,omitempty"` // variable name -> doc ID (registered on the Expr)
	Exts   bool              `json:"exts,omitempty"` // register the harness extensions on the Expr
}

// Op is one public-API operation executed by a task.
type Op struct {
	Kind   string            `json:"op"` // eval evalbytes string compile eregvars eregexts gregvars gregexts probe
	Expr   string            `json:"expr,omitempty"`
	Doc    string            `json:"doc,omitempty"`
	Text   string            `json:"text,omitempty"`   // compile: program text
	Family string            `json:"family,omitempty"` // compile
	Vars   map[string]string `json:"vars,omitempty"`   // compile: Expr-level variables
	Exts   bool              `json:"exts,omitempty"`   // compile: register harness extensions
	// registrations
	Names   []string `json:"names,omitempty"`
	Version int      `json:"version,omitempty"`
	Invalid string   `json:"invalid,omitempty"` // "" | "name" | "func"
	Fault   *Fault   `json:"fault,omitempty"`
}

// Fault is a fault injected into one operation.
type Fault struct {
	Kind string `json:"kind"`        // abort ext-error ext-undefined ext-panic ext-stall
	At   int    `json:"at"`          // abort: n-th non-literal node evaluation; ext-*: k-th $xfault call
	N    int    `json:"n,omitempty"` // ext-stall: number of yields / ticks
}

// Expect is what a replay file is expected to reproduce.
type Expect struct {
	Class     string `json:"class"`
	Key       string `json:"key"`
	EventHash string `json:"eventlog_sha256,omitempty"`
}

// Violation is one oracle failure.
type Violation struct {
	Property string `json:"property"`
	Class    string `json:"class"`  // Appendix E
	Oracle   string `json:"oracle"` // which oracle fired
	Key      string `json:"key"`    // stable identification (family|text or function pair)
	Task     int    `json:"task"`
	Op       int    `json:"op"`
	Detail   string `json:"detail"`
}

// Result is what one execution reports.
type Result struct {
	Seed        uint64          `json:"seed"`
	Property    string          `json:"property"`
	Kind        string          `json:"kind"`
	Strategy    string          `json:"strategy"`
	Tasks       int             `json:"tasks"`
	Ops         int             `json:"ops"`
	Events      int             `json:"events"`
	EventHash   string          `json:"event_hash"`
	SchedSig    string          `json:"sched_sig"` // hash of (task,site) at switches
	Switches    []engine.Switch `json:"switches"`
	SwitchCount int             `json:"switch_count"`
	WindowSw    int             `json:"window_switches"` // preemptions at call-window sites
	Probes      map[string]int  `json:"probes,omitempty"`
	Faults      map[string]int  `json:"faults,omitempty"` // fired, by kind
	Violations  []Violation     `json:"violations,omitempty"`
	Foreign     map[string]int  `json:"foreign,omitempty"` // oracle failures of other properties, by class
	Triples     []string        `json:"triples,omitempty"` // hashes of (text,doc) pairs evaluated at >=2 positions
	Families    map[string]int  `json:"families,omitempty"`
	Deadlock    bool            `json:"deadlock,omitempty"`
	StepBudget  bool            `json:"step_budget,omitempty"`
	Tainted     bool            `json:"tainted,omitempty"` // process must not be reused
	RaceReports []RaceReport    `json:"race_reports,omitempty"`
	SimNanos    int64           `json:"sim_nanos,omitempty"`
	Inconcl     int             `json:"inconclusive,omitempty"`
	Linearized  int             `json:"linearized,omitempty"`
	Confounded  int             `json:"confounded,omitempty"`
	Note        string          `json:"note,omitempty"`
	ColdStart   bool            `json:"cold_start,omitempty"`
	NodeTypes   map[string]int  `json:"node_types,omitempty"` // node types evaluated by the reference evaluations
	Funcs       map[string]int  `json:"funcs,omitempty"`      // callables called by the reference evaluations
	Outs        []string        `json:"outs,omitempty"` // "<triple hash>:<outcome hash>" of unfaulted evaluations (C05 cross-process oracle)
	OutTexts    map[string]string `json:"out_texts,omitempty"` // triple hash -> "program on doc -> outcome" (for reports)
	DocRanges   []AddrRange     `json:"-"`
	NontrivKeys []string        `json:"nontriv_keys,omitempty"` // C07: hashes of (program, document) pairs of copying/transform families
}

// RaceReport is one parsed race-detector report.
type RaceReport struct {
	Pair    string   `json:"pair"` // sorted top non-runtime functions of the two stacks
	Addr    string   `json:"addr"`
	Write   string   `json:"write"` // top frame of a writing access
	InDoc   bool     `json:"in_doc"`
	Harness bool     `json:"harness"` // both stacks inside the harness: harness bug
	Text    string   `json:"text"`
	Stacks  []string `json:"stacks,omitempty"`
}
