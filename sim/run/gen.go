package run

import (
	"fmt"

	"github.com/blues/jsonata-go/jparse"

	"verif/sim/engine"
	"verif/sim/work"
)

// Generate materialises the workload, fault plan and strategy of one run
// from one integer. Everything is drawn from streams of seed; the schedule
// itself is drawn (and recorded) by the strategy while the run executes.
func Generate(prop string, seed uint64, tier string) *Spec {
	g := &gen{
		w:    engine.NewRNG(seed, "workload"),
		f:    engine.NewRNG(seed, "faults"),
		k:    engine.NewRNG(seed, "config"),
		tier: tier,
	}
	g.pg = &work.Gen{R: g.w, Ext: true}
	spec := &Spec{Format: 1, Property: prop, Engine: "A", Seed: seed}
	switch prop {
	case "C05":
		g.history(spec)
	case "C06":
		g.cat = true
		switch g.k.Intn(10) {
		case 0, 1, 2, 3:
			g.sharedExpr(spec, false)
		case 4, 5, 6, 7:
			g.perTaskExpr(spec)
		case 8:
			g.regCompile(spec, false)
		default:
			// Expr-level registrations and evaluations on task-private
			// Exprs next to package-level registrations: every task only
			// touches its own Exprs, so nothing may race or leak
			g.exprRegistry(spec)
			if spec.Strategy.Name == "rtc" {
				spec.Strategy = g.concurrentStrategy()
			}
		}
	case "C07":
		if g.k.Intn(3) < 2 {
			g.frameSeq(spec)
		} else {
			g.sharedExpr(spec, true)
			spec.Kind = "shared-doc"
		}
	case "C19":
		spec.Engine = "B"
		g.clock(spec)
	case "C20":
		switch g.k.Intn(4) {
		case 0:
			g.regCompile(spec, true)
		case 1:
			g.exprRegistry(spec)
		default:
			g.extFaults(spec)
		}
	default:
		panic("no generator for property " + prop)
	}
	switch spec.Kind {
	case "history", "shared-expr", "per-task-expr", "ext-faults", "frame-seq", "shared-doc":
		// one run in three uses package-level extensions: one set of
		// function objects shared by every Expr of the process
		spec.GlobalExts = g.k.Chance(1, 3)
	}
	return spec
}

type gen struct {
	w, f, k *engine.RNG
	pg      *work.Gen
	tier    string
	cat     bool // draw a quarter of the programs from the catalogue
}

func (g *gen) thorough() bool { return g.tier == "thorough" }

func (g *gen) concurrentStrategy() StratSpec {
	switch g.k.Intn(8) {
	case 7:
		return StratSpec{Name: "duel", Den: []int{12, 30, 60}[g.k.Intn(3)]}
	case 6:
		return StratSpec{Name: "pctw", D: 2 + g.k.Intn(2)}
	case 0:
		return StratSpec{Name: "rw", Den: 2}
	case 1:
		return StratSpec{Name: "rw", Den: []int{3, 8, 32}[g.k.Intn(3)]}
	case 2:
		return StratSpec{Name: "pct", D: 1 + g.k.Intn(4)}
	case 3, 4:
		return StratSpec{Name: "window", Den: []int{1, 2, 4}[g.k.Intn(3)]}
	default:
		return StratSpec{Name: "rtc", Den: 2}
	}
}

func (g *gen) program(family string) work.Program {
	if family == "" && g.w.Chance(1, 6) {
		return work.Catalogue[g.w.Intn(len(work.Catalogue))]
	}
	if g.cat && family != "outside" && g.w.Chance(1, 4) {
		// concurrent workloads meet on the catalogue too: the same function
		// under different pictures / options / patterns in different tasks
		return work.Catalogue[g.w.Intn(len(work.Catalogue))]
	}
	return g.pg.Program(family, g.w.Range(0, 3))
}

// wrapVar makes the program run against a registered variable instead of the
// input document (if the wrapped text still parses).
func (g *gen) wrapVar(es *ExprSpec, docID string) {
	text := "$dv.(" + es.Text + ")"
	if _, err := jparse.Parse(text); err != nil {
		return
	}
	es.Text = text
	es.Vars = map[string]string{"dv": docID}
}

// safeFamily draws a family excluding "outside" (known C07 defect shapes are
// exercised by C07's own check only, so that one defect is not reported
// under three properties).
func (g *gen) safeFamily() string {
	fams := []string{"str", "str", "num", "arrn", "arrs", "obj", "bool", "transform", "fail"}
	return fams[g.w.Intn(len(fams))]
}

func (g *gen) docs(spec *Spec, n int) {
	for i := 0; i < n; i++ {
		d := DocSpec{ID: fmt.Sprintf("d%d", i), JSON: work.DocJSON(i, g.w.Intn(3))}
		g.shareStructure(&d)
		spec.Docs = append(spec.Docs, d)
	}
}

// shareStructure gives some documents shared sub-structures: the same object
// under two names, and a sub-slice that shares its backing array (with spare
// capacity) with another array of the document.
func (g *gen) shareStructure(d *DocSpec) {
	if g.w.Chance(1, 4) {
		d.Alias = []string{"alias", "one"}
	}
	if g.w.Chance(1, 3) {
		d.Subslice = []string{"page", "nums", "2"}
	} else if g.w.Chance(1, 5) {
		d.Typed = true
	} else if g.w.Chance(1, 3) {
		d.Carve = true
	}
}

// faultFor draws a fault for an eval op of the given program (nil = none).
func (g *gen) faultFor(text string, kinds []string) *Fault {
	kind := kinds[g.f.Intn(len(kinds))]
	switch kind {
	case "abort":
		return &Fault{Kind: "abort", At: 1 + g.f.Intn(12)}
	case "ext-stall":
		if !work.HasExt(text) {
			return nil
		}
		return &Fault{Kind: kind, At: 1 + g.f.Intn(2), N: 1 + g.f.Intn(4)}
	default:
		if !work.HasExt(text) {
			return &Fault{Kind: "abort", At: 1 + g.f.Intn(12)}
		}
		return &Fault{Kind: kind, At: 1 + g.f.Intn(2)}
	}
}

// ---- C05: histories on shared expressions, one task ---------------------------

func (g *gen) history(spec *Spec) {
	spec.Kind = "history"
	spec.Strategy = StratSpec{Name: "rtc"}
	nd := g.w.Range(2, 3)
	g.docs(spec, nd)
	ne := g.w.Range(2, 6)
	for i := 0; i < ne; i++ {
		p := g.program(g.safeFamily())
		es := ExprSpec{ID: fmt.Sprintf("e%d", i), Text: p.Text, Family: p.Family, Exts: true}
		if g.w.Chance(1, 5) {
			// the program runs against a registered variable instead of the input
			g.wrapVar(&es, spec.Docs[g.w.Intn(nd)].ID)
		}
		spec.Exprs = append(spec.Exprs, es)
	}
	nops := g.w.Range(2, 12)
	if g.k.Chance(1, 8) {
		// soak: a long history on the same small pool, rich in failing
		// evaluations (state that only builds up over many evaluations, or
		// that is left behind by failures, needs length rather than variety)
		spec.Kind = "history"
		spec.MaxEvents = 400000
		nops = g.w.Range(40, 90)
		for i := 0; i < 2; i++ {
			p := g.program("fail")
			spec.Exprs = append(spec.Exprs, ExprSpec{ID: fmt.Sprintf("f%d", i), Text: p.Text, Family: p.Family, Exts: true})
		}
		ne = len(spec.Exprs)
	}
	if g.k.Chance(2, 3) {
		// catalogue programs on the canonical document: the same triples
		// recur in many processes with different histories, which is what
		// the cross-process comparison needs
		spec.Docs = append(spec.Docs, DocSpec{ID: "dc", JSON: work.DocJSON(0, 0)})
		k := g.w.Range(1, 3)
		for i := 0; i < k; i++ {
			p := work.Catalogue[g.w.Intn(len(work.Catalogue))]
			spec.Exprs = append(spec.Exprs, ExprSpec{ID: fmt.Sprintf("c%d", i), Text: p.Text, Family: p.Family, Exts: true})
		}
		ne = len(spec.Exprs)
	}
	if spec.MaxEvents > 0 && g.k.Chance(1, 2) {
		// eviction soak: one probe program, then 70..140 programs that
		// differ only in a picture / pattern parameter, then the probe again
		// (and once more in between)
		kind := g.w.Intn(4)
		_, probe := work.Churn(kind, 0)
		if len(spec.Docs) == 0 || spec.Docs[len(spec.Docs)-1].ID != "dc" {
			spec.Docs = append(spec.Docs, DocSpec{ID: "dc", JSON: work.DocJSON(0, 0)})
		}
		spec.Exprs = append(spec.Exprs, ExprSpec{ID: "cprobe", Text: probe, Family: "churn", Exts: true})
		n := g.w.Range(70, 140)
		base := g.w.Intn(5000)
		ops := []Op{{Kind: "eval", Expr: "cprobe", Doc: "dc"}}
		for i := 0; i < n; i++ {
			text, _ := work.Churn(kind, base+i)
			id := fmt.Sprintf("ch%d", i)
			ops = append(ops, Op{Kind: "compile", Expr: id, Text: text, Family: "churn", Exts: true}, Op{Kind: "eval", Expr: id, Doc: "dc"})
			if i == n/2 || i == n-1 {
				ops = append(ops, Op{Kind: "eval", Expr: "cprobe", Doc: "dc"})
			}
		}
		// the first churn program again, after everything else
		ops = append(ops, Op{Kind: "eval", Expr: "ch0", Doc: "dc"})
		spec.Tasks = [][]Op{ops}
		return
	}
	var ops []Op
	priv := 0
	for len(ops) < nops {
		e := spec.Exprs[g.w.Intn(ne)]
		d := spec.Docs[g.w.Intn(nd)].ID
		if e.ID[0] == 'c' {
			d = "dc"
		}
		switch c := g.w.Intn(12); {
		case c < 6:
			if e.Vars != nil && g.w.Chance(1, 2) {
				// the variable the program reads is registered again with
				// another document (same name, new value) before this call
				ops = append(ops, Op{Kind: "erebind", Expr: e.ID, Vars: map[string]string{"dv": spec.Docs[g.w.Intn(nd)].ID}})
			}
			op := Op{Kind: "eval", Expr: e.ID, Doc: d}
			if g.f.Chance(1, 4) {
				op.Fault = g.faultFor(e.Text, []string{"abort", "abort", "ext-error", "ext-panic", "ext-undefined"})
			}
			ops = append(ops, op)
			if g.w.Chance(1, 3) { // repeat the same call right away (histories of consecutive Evals)
				ops = append(ops, Op{Kind: "eval", Expr: e.ID, Doc: d})
			}
		case c < 7:
			ops = append(ops, Op{Kind: "evalbytes", Expr: e.ID, Doc: d})
		case c < 8:
			ops = append(ops, Op{Kind: "string", Expr: e.ID})
		default:
			// another expression - in particular other calls of the same
			// built-ins under other contexts - evaluated in between
			var p work.Program
			if g.w.Chance(1, 2) {
				p = work.Program{Text: e.Text, Family: e.Family}
				if e.Vars != nil {
					p = g.program(g.safeFamily())
				}
			} else {
				p = g.program(g.safeFamily())
			}
			id := fmt.Sprintf("p%d", priv)
			priv++
			ops = append(ops, Op{Kind: "compile", Expr: id, Text: p.Text, Family: p.Family, Exts: true})
			op := Op{Kind: "eval", Expr: id, Doc: d}
			if g.f.Chance(1, 5) {
				op.Fault = g.faultFor(p.Text, []string{"abort", "ext-error", "ext-panic"})
			}
			ops = append(ops, op)
		}
	}
	spec.Tasks = [][]Op{ops}
}

// ---- C06 (i): shared expressions, task-specific documents ---------------------

func (g *gen) taskCount() int {
	if g.thorough() {
		switch g.k.Intn(4) {
		case 0:
			return g.k.Range(2, 4)
		case 1:
			return g.k.Range(5, 8)
		case 2:
			return g.k.Range(9, 16)
		default:
			return g.k.Range(17, 32)
		}
	}
	return g.k.Range(2, 8)
}

func (g *gen) sharedExpr(spec *Spec, sharedDoc bool) {
	spec.Kind = "shared-expr"
	spec.Strategy = g.concurrentStrategy()
	nt := g.taskCount()
	if sharedDoc {
		if nt > 6 {
			nt = g.k.Range(2, 6)
		}
		d := DocSpec{ID: "d0", JSON: work.DocJSON(0, g.w.Intn(3))}
		g.shareStructure(&d)
		spec.Docs = append(spec.Docs, d)
	} else {
		g.docs(spec, nt)
	}
	ne := g.w.Range(1, 4)
	for i := 0; i < ne; i++ {
		fam := g.safeFamily()
		if sharedDoc {
			fam = []string{"transform", "arrn", "arrs", "obj", "outside", "str"}[g.w.Intn(6)]
		}
		p := g.program(fam)
		es := ExprSpec{ID: fmt.Sprintf("e%d", i), Text: p.Text, Family: p.Family, Exts: true}
		if sharedDoc && g.w.Chance(1, 4) {
			g.wrapVar(&es, "d0")
		}
		spec.Exprs = append(spec.Exprs, es)
	}
	maxOps := 4
	if nt > 8 {
		maxOps = 2
	}
	// callers may share one document between goroutines ("on the same or on
	// different inputs"): a quarter of the shared-Expr runs do
	oneDoc := !sharedDoc && g.k.Chance(1, 4)
	for t := 0; t < nt; t++ {
		var ops []Op
		n := g.w.Range(1, maxOps)
		for i := 0; i < n; i++ {
			e := spec.Exprs[g.w.Intn(ne)]
			d := fmt.Sprintf("d%d", t)
			if sharedDoc || oneDoc {
				d = "d0"
			}
			op := Op{Kind: "eval", Expr: e.ID, Doc: d}
			if g.w.Chance(1, 10) {
				op.Kind = "evalbytes"
			}
			if work.HasExt(e.Text) && g.f.Chance(1, 3) {
				op.Fault = g.faultFor(e.Text, []string{"ext-stall"})
			}
			ops = append(ops, op)
		}
		spec.Tasks = append(spec.Tasks, ops)
	}
}

// ---- C06 (ii): every task compiles its own expressions ------------------------

func (g *gen) perTaskExpr(spec *Spec) {
	spec.Kind = "per-task-expr"
	spec.Strategy = g.concurrentStrategy()
	nt := g.taskCount()
	g.docs(spec, nt)
	// a small common pool so that the tasks meet on the same built-ins
	np := g.w.Range(1, 4)
	pool := make([]work.Program, np)
	for i := range pool {
		pool[i] = g.program(g.safeFamily())
	}
	maxOps := 3
	if nt > 8 {
		maxOps = 1
	}
	if g.k.Chance(1, 6) {
		// siblings: every task runs the SAME function with its own picture /
		// pattern / layout parameter, several times, on one document - the
		// workload that meets "the last picture I analysed" style state
		if nt > 6 {
			nt = g.k.Range(2, 6)
		}
		spec.Docs = []DocSpec{{ID: "dc", JSON: work.DocJSON(0, 0)}}
		kind := g.w.Intn(4)
		base := g.w.Intn(3000)
		_, probe := work.Churn(kind, 0)
		for t := 0; t < nt; t++ {
			var ops []Op
			for j := 0; j < 2; j++ {
				text, _ := work.Churn(kind, base+t*2+j)
				if j == 1 && g.w.Chance(1, 3) {
					text = probe
				}
				id := fmt.Sprintf("s%d", j)
				ops = append(ops, Op{Kind: "compile", Expr: id, Text: text, Family: "siblings", Exts: true})
				for r := g.w.Range(2, 3); r > 0; r-- {
					ops = append(ops, Op{Kind: "eval", Expr: id, Doc: "dc"})
				}
			}
			spec.Tasks = append(spec.Tasks, ops)
		}
		return
	}
	if g.k.Chance(1, 5) {
		// compile churn: a server compiling, per request, one of some forty
		// expressions (anything that caches compiled or analysed program
		// text is filled, evicted and hit from several tasks at once)
		if nt > 6 {
			nt = g.k.Range(2, 6)
			spec.Docs = spec.Docs[:nt]
		}
		np = g.w.Range(34, 44)
		pool = pool[:0]
		seen := map[string]bool{}
		for len(pool) < np {
			var p work.Program
			if g.w.Chance(2, 3) {
				p = work.Catalogue[g.w.Intn(len(work.Catalogue))]
			} else {
				p = g.pg.Program(g.safeFamily(), g.w.Range(0, 1))
			}
			if !seen[p.Text] {
				seen[p.Text] = true
				pool = append(pool, p)
			}
		}
		maxOps = 12
		spec.MaxEvents = 2000000 // only the auto-yield worker comes near it
	}
	if maxOps == 12 && g.k.Chance(1, 2) {
		// cache thrash: task 0 walks cyclically over a working set of W
		// expressions (every compile meets the entry that was used longest
		// ago), the other tasks bring in newcomers at random moments
		w := []int{8, 16, 32, 32, 34}[g.k.Intn(5)]
		var ops []Op
		for round := 0; round < 3; round++ {
			for i := 0; i < w; i++ {
				p := pool[i%np]
				id := fmt.Sprintf("w%d_%d", round, i)
				ops = append(ops, Op{Kind: "compile", Expr: id, Text: p.Text, Family: p.Family, Exts: true})
				if round == 2 && g.w.Chance(1, 2) {
					ops = append(ops, Op{Kind: "eval", Expr: id, Doc: "d0"})
				}
			}
		}
		spec.Tasks = append(spec.Tasks, ops)
		for t := 1; t < nt; t++ {
			var ops []Op
			for i, n := 0, g.w.Range(3, 8); i < n; i++ {
				p := pool[(w+g.w.Intn(np-w+1))%np]
				id := fmt.Sprintf("p%d", i)
				ops = append(ops, Op{Kind: "compile", Expr: id, Text: p.Text, Family: p.Family, Exts: true},
					Op{Kind: "eval", Expr: id, Doc: fmt.Sprintf("d%d", t)})
			}
			spec.Tasks = append(spec.Tasks, ops)
		}
		return
	}
	for t := 0; t < nt; t++ {
		var ops []Op
		n := g.w.Range(1, maxOps)
		if maxOps == 12 {
			n = g.w.Range(4, 8)
		}
		for i := 0; i < n; i++ {
			p := pool[g.w.Intn(np)]
			id := fmt.Sprintf("p%d", i)
			ops = append(ops, Op{Kind: "compile", Expr: id, Text: p.Text, Family: p.Family, Exts: true})
			reps := g.w.Range(1, 2)
			if maxOps == 12 {
				reps = 1
			}
			for k := 0; k < reps; k++ {
				op := Op{Kind: "eval", Expr: id, Doc: fmt.Sprintf("d%d", t)}
				if work.HasExt(p.Text) && g.f.Chance(1, 3) {
					op.Fault = g.faultFor(p.Text, []string{"ext-stall"})
				}
				ops = append(ops, op)
			}
		}
		spec.Tasks = append(spec.Tasks, ops)
	}
}

// ---- C06 (iii) / C20: package-level registration in parallel with Compile -----

func (g *gen) regOp(version *int, global bool, expr string) Op {
	*version++
	v := *version
	var names []string
	ext := g.w.Chance(1, 2)
	switch c := g.w.Intn(4); {
	case c == 0: // order-symmetric pair
		if ext {
			names = []string{"fp", "fq"}
		} else {
			names = []string{"vp", "vq"}
		}
	case c == 1: // shadow a built-in / time callable
		if ext {
			names = []string{"now"}
		} else {
			names = []string{"count"}
		}
	default:
		if ext {
			names = []string{"fa"}
		} else {
			names = []string{[]string{"va", "vb"}[g.w.Intn(2)]}
		}
	}
	op := Op{Names: names, Version: v, Expr: expr}
	switch {
	case global && ext:
		op.Kind = "gregexts"
	case global:
		op.Kind = "gregvars"
	case ext:
		op.Kind = "eregexts"
	default:
		op.Kind = "eregvars"
	}
	if g.w.Chance(1, 6) {
		op.Names = op.Names[:1]
		if ext && g.w.Chance(1, 2) {
			op.Invalid = "func"
		} else {
			op.Invalid = "name"
		}
	}
	return op
}

func (g *gen) regCompile(spec *Spec, inRunProbes bool) {
	spec.Kind = "reg-compile"
	spec.Strategy = g.concurrentStrategy()
	nt := g.k.Range(2, 4)
	version := 0
	exprs := 0
	if g.k.Chance(1, 2) {
		// warm registry: the names exist before the tasks start, so that
		// overlapping registrations replace entries instead of adding them
		for i, n := 0, g.k.Range(3, 7); i < n; i++ {
			op := g.regOp(&version, true, "")
			if op.Invalid != "" {
				continue
			}
			spec.Warm = append(spec.Warm, op)
		}
	}
	for t := 0; t < nt; t++ {
		var ops []Op
		registrar := t%2 == 0
		n := g.w.Range(1, 3)
		mine := 0
		for i := 0; i < n; i++ {
			if registrar {
				ops = append(ops, g.regOp(&version, true, ""))
				continue
			}
			if exprs >= maxModelExprs {
				break
			}
			id := fmt.Sprintf("q%d", mine)
			mine++
			exprs++
			ops = append(ops, Op{Kind: "compile", Expr: id, Text: ProbeText, Family: "registry"})
			if inRunProbes && g.w.Chance(1, 2) {
				ops = append(ops, Op{Kind: "probe", Expr: id})
			}
		}
		if len(ops) == 0 {
			ops = append(ops, g.regOp(&version, true, ""))
		}
		spec.Tasks = append(spec.Tasks, ops)
	}
}

// ---- C20: Expr-level overlays, snapshot rule, rejection -----------------------

func (g *gen) exprRegistry(spec *Spec) {
	spec.Kind = "expr-registry"
	if g.k.Chance(1, 2) {
		spec.Strategy = StratSpec{Name: "rtc", Den: 2}
	} else {
		spec.Strategy = g.concurrentStrategy()
	}
	nt := g.k.Range(1, 3)
	version := 0
	exprs := 0
	for t := 0; t < nt; t++ {
		var ops []Op
		var mine []string
		n := g.w.Range(3, 8)
		for i := 0; i < n; i++ {
			c := g.w.Intn(10)
			switch {
			case (len(mine) == 0 || c < 2) && exprs < maxModelExprs:
				id := fmt.Sprintf("q%d", len(mine))
				mine = append(mine, id)
				exprs++
				ops = append(ops, Op{Kind: "compile", Expr: id, Text: ProbeText, Family: "registry"})
			case len(mine) == 0:
				ops = append(ops, g.regOp(&version, true, ""))
			case c < 5:
				ops = append(ops, g.regOp(&version, false, mine[g.w.Intn(len(mine))]))
			case c < 7:
				ops = append(ops, g.regOp(&version, true, ""))
			default:
				ops = append(ops, Op{Kind: "probe", Expr: mine[g.w.Intn(len(mine))]})
			}
		}
		spec.Tasks = append(spec.Tasks, ops)
	}
}

// ---- C20: extension calls under injected faults -------------------------------

var extPrograms = []work.Program{
	{Text: `$xfault(name)`, Family: "ext"},
	{Text: `$exists($xfault(name))`, Family: "ext"},
	{Text: `name.$xctx()`, Family: "ext"},
	{Text: `items.p.$xctx()`, Family: "ext"},
	{Text: `nest.c.$xctx() & "/" & one.k.$xctx()`, Family: "ext"},
	{Text: `$xundef(nosuch)`, Family: "ext"},
	{Text: `[$xundef(nosuch), name.$xctx()]`, Family: "ext"},
	{Text: `$map(s, function($v){$xfault($v)})`, Family: "ext"},
	{Text: `$map(s, $xfault)`, Family: "ext"},
	{Text: `name ~> $xfault() ~> $uppercase()`, Family: "ext"},
	{Text: `$xfault(name) & $xfault(nest.c)`, Family: "ext"},
	{Text: `$ ~> |items|{"r": $xfault(p)}|`, Family: "ext"},
	{Text: `items[$xfault(q) > 0].p`, Family: "ext"},
	{Text: `$sort(s, function($a,$b){$xfault($a) > $b})`, Family: "ext"},
	{Text: `$xid(name.$xctx())`, Family: "ext"},
	{Text: `items.(p.$xctx() & $string($xfault(q)))`, Family: "ext"},
	{Text: `($f := $xfault; $f(name))`, Family: "ext"},
	{Text: `$xfault(?)(name)`, Family: "ext"},
	{Text: NestedCtxProbe, Family: "ext"},
	{Text: `items.p.$xboth($$.name.$xboth(2))`, Family: "ext"},
	{Text: `name.$xboth(nosuch)`, Family: "ext"},
	{Text: `$xboth(nosuch)`, Family: "ext"},
	{Text: `items.p.$xboth(1)`, Family: "ext"},
	{Text: `$xboth(name, 1)`, Family: "ext"},
	{Text: `$xboth(nosuch, 1)`, Family: "ext"},
	{Text: `nest.c.$xboth($$.nosuch) & "|" & $xboth(one.k, nosuch)`, Family: "ext"},
	// an Optional trailing parameter and an UndefinedHandler that asks about it
	{Text: `$xopt(n)`, Family: "ext"},
	{Text: `$xopt(n, name)`, Family: "ext"},
	{Text: `$xopt(nosuch)`, Family: "ext"},
	{Text: `$xopt(n, nosuch)`, Family: "ext"},
	{Text: `items.$xopt(q)`, Family: "ext"},
	{Text: `$map(nums, $xopt)`, Family: "ext"},
	{Text: `$xopt(?, "p")(n) & $xopt(n)`, Family: "ext"},
}

func (g *gen) extFaults(spec *Spec) {
	spec.Kind = "ext-faults"
	nt := g.k.Range(1, 5)
	if nt == 1 {
		spec.Strategy = StratSpec{Name: "rtc"}
	} else {
		spec.Strategy = []StratSpec{{Name: "window", Den: 1}, {Name: "window", Den: 2}, {Name: "rw", Den: 3}, {Name: "pct", D: 2}}[g.k.Intn(4)]
	}
	g.docs(spec, nt)
	ne := g.w.Range(1, 4)
	for i := 0; i < ne; i++ {
		var p work.Program
		if g.w.Chance(3, 4) {
			p = extPrograms[g.w.Intn(len(extPrograms))]
		} else {
			for {
				p = g.program("str")
				if work.HasExt(p.Text) {
					break
				}
			}
			p.Family = "ext-gen"
		}
		spec.Exprs = append(spec.Exprs, ExprSpec{ID: fmt.Sprintf("e%d", i), Text: p.Text, Family: p.Family, Exts: true})
	}
	for t := 0; t < nt; t++ {
		var ops []Op
		n := g.w.Range(2, 5)
		for i := 0; i < n; i++ {
			e := spec.Exprs[g.w.Intn(ne)]
			op := Op{Kind: "eval", Expr: e.ID, Doc: fmt.Sprintf("d%d", t)}
			if g.f.Chance(1, 3) {
				op.Fault = g.faultFor(e.Text, []string{"ext-error", "ext-undefined", "ext-panic", "ext-stall"})
				if op.Fault != nil && op.Fault.Kind == "abort" {
					op.Fault = nil
				}
			}
			ops = append(ops, op)
		}
		spec.Tasks = append(spec.Tasks, ops)
	}
}

// varPrograms operate directly on values registered as variables: $av (array
// of numbers), $iv (array of objects), $ov (object with one member).
var varPrograms = []string{
	`$sort($av)`, `$reverse($av)`, `$append($av, $av)`, `$count($shuffle($av))`, `$zip($av, $av)`, `$distinct($av)`,
	`$av^(>$)`, `$iv^(q)`, `$iv^(>q).p`, `$iv ~> |$|{"z": 1}|`, `$ov ~> |$|{"x": 1}, "k"|`, `$merge([$ov, {"k": "w"}])`,
	`$map($iv, |$|{"t": 1}|)`, `$iv[0] ~> |$|{"q": 9}|`, `$sift($ov, function($v){true})`, `$each($ov, function($v,$k){$v})`,
	`$spread($ov)`, `$iv.p`, `$iv{p: q}`, `$iv[q > 0]`, `$av[0]`, `$reduce($av, function($a,$b){$a + $b})`,
	`$filter($av, function($v){$v > 1})`, `$map($av, function($v){$v * 2})`, `$string($iv)`, `$iv ~> |$|{"r": $$.n}|`,
	`$sort($iv, function($a,$b){$a.q < $b.q})`, `$reverse($iv)`, `$append($iv, $ov)`, `$ ~> |$iv|{"w": 1}|`,
	`[$av, $av].$reverse($)`, `$iv.$merge([$, {"m": 1}])`, `$lookup($ov, "k")`, `$keys($ov)`,
	`($iv ~> |$|{"z": $error("late")}|)`, `$iv ~> |$|{"a": 1}| ~> |$|{"b": a + 1}, "a"|`,
	`$av ~> $sort() ~> $reverse()`, `$sort($av, function($a,$b){$a > $b})[0]`, `$iv[1].(p & "!")`,
}

// ---- C07: frame condition -------------------------------------------------------

func (g *gen) frameSeq(spec *Spec) {
	spec.Kind = "frame-seq"
	spec.Strategy = StratSpec{Name: "rtc", Den: 2}
	nt := g.k.Range(1, 3)
	nd := g.w.Range(1, 3)
	for i := 0; i < nd; i++ {
		d := DocSpec{ID: fmt.Sprintf("d%d", i), JSON: work.DocJSON(i, g.w.Intn(3))}
		g.shareStructure(&d)
		spec.Docs = append(spec.Docs, d)
	}
	fams := []string{"transform", "transform", "outside", "arrn", "arrs", "obj", "str", "fail", "num"}
	ne := g.w.Range(1, 5)
	for i := 0; i < ne; i++ {
		p := g.program(fams[g.w.Intn(len(fams))])
		es := ExprSpec{ID: fmt.Sprintf("e%d", i), Text: p.Text, Family: p.Family, Exts: true}
		if g.w.Chance(1, 3) {
			g.wrapVar(&es, spec.Docs[g.w.Intn(nd)].ID)
		}
		spec.Exprs = append(spec.Exprs, es)
	}
	if g.w.Chance(1, 2) {
		// sub-structures of d0 registered as variables on their own
		d0 := spec.Docs[0]
		for _, m := range []string{"nums", "items", "one"} {
			spec.Docs = append(spec.Docs, DocSpec{ID: "d0." + m, JSON: d0.JSON, Alias: d0.Alias, Subslice: d0.Subslice, Typed: d0.Typed, Carve: d0.Carve, Member: m, Parent: "d0"})
		}
		k := g.w.Range(1, 3)
		for i := 0; i < k; i++ {
			spec.Exprs = append(spec.Exprs, ExprSpec{ID: fmt.Sprintf("v%d", i), Text: varPrograms[g.w.Intn(len(varPrograms))], Family: "varops", Exts: true,
				Vars: map[string]string{"av": "d0.nums", "iv": "d0.items", "ov": "d0.one"}})
		}
		ne = len(spec.Exprs)
	}
	for t := 0; t < nt; t++ {
		var ops []Op
		if g.w.Chance(1, 3) {
			// a pipeline: the result of one evaluation becomes the registered
			// variable $prev of another expression; later evaluations (of
			// either) must not change it
			d := spec.Docs[g.w.Intn(nd)].ID
			src := resultPrograms[g.w.Intn(len(resultPrograms))]
			ops = append(ops,
				Op{Kind: "compile", Expr: "rs", Text: src, Family: "pipeline", Exts: true},
				Op{Kind: "eval", Expr: "rs", Doc: d}, // operation 1: its result is registered below
				Op{Kind: "compile", Expr: "rt", Text: prevPrograms[g.w.Intn(len(prevPrograms))], Family: "pipeline", Exts: true},
				Op{Kind: "eregresult", Expr: "rt", Version: 1})
			for k := g.w.Range(1, 3); k > 0; k-- {
				if g.w.Chance(1, 2) {
					ops = append(ops, Op{Kind: "eval", Expr: "rt", Doc: d})
				} else {
					ops = append(ops, Op{Kind: "eval", Expr: "rs", Doc: d})
				}
			}
		}
		n := g.w.Range(1, 6)
		for i := 0; i < n; i++ {
			e := spec.Exprs[g.w.Intn(ne)]
			op := Op{Kind: "eval", Expr: e.ID, Doc: spec.Docs[g.w.Intn(nd)].ID}
			if g.f.Chance(1, 3) {
				op.Fault = g.faultFor(e.Text, []string{"abort", "abort", "abort", "ext-error", "ext-panic"})
			}
			ops = append(ops, op)
		}
		spec.Tasks = append(spec.Tasks, ops)
	}
}

// resultPrograms return containers (often aliasing the input); prevPrograms
// work on such a value registered as $prev.
var resultPrograms = []string{
	`$append(nums, 5)`, `$append(s, "x")`, `items`, `$sort(nums)`, `one`, `$ ~> |items|{"r": 1}|`, `nums[$ > -1]`,
	`$append(page, 99)`, `s`, `$merge([one])`, `[nums, s]`, `items[q >= 0]`, `$reverse(s)`, `$distinct(dups)`,
	`{"a": nums, "b": one}`, `$map(items, function($i){$i})`, `$zip(nums, s)`, `$filter(s, function($v){true})`,
	`$append(nums, nums)`, `$append(dups, "t")`, `items.p`, `$spread(one)`, `$sift(one, function($v){true})`,
	// comparator sorts of arrays of every small length (0, 1, 2, 3 elements)
	`$sort([one], function($a, $b){true})`, `$sort(items[q > $$.id], function($a, $b){$a.q > $b.q})`,
	`$sort([], function($a, $b){$a > $b})`, `$sort(nums[[0, 1]], function($a, $b){$a > $b})`,
	`$sort(s, function($a, $b){$a > $b})`, `$sort([nums[0]], function($a, $b){$a > $b})`,
}

var prevPrograms = []string{
	`$append($prev, 1)`, `$append($prev, "y")`, `$sort($prev)`, `$reverse($prev)`, `$distinct($prev)`, `$count($prev)`,
	`$prev ~> |$|{"z": 1}|`, `$prev[0] ~> |$|{"q": 9}|`, `$map($prev, function($v){$v})`, `$zip($prev, $prev)`,
	`$merge([$prev, {"k": 1}])`, `$string($prev)`, `$append($prev, $prev)`, `$prev[$ != 2]`, `$prev[true][$ != 2]`,
	`$sort($prev, function($a, $b){$string($a) > $string($b)})`, `$ ~> |$prev|{"w": 1}|`, `$append($prev, $$.nums)`,
	`$prev.a ~> $append(7)`, `$each($prev, function($v){$v})`, `$prev ~> $append(3) ~> $append(4)`,
	`$sort($$.s, function($a, $b){$a > $b})`, `$sort($$.nums, function($a, $b){$a < $b})`, `$sort($$.items, function($a, $b){$a.q > $b.q})`,
	`$sort([$$.nest], function($a, $b){true})`, `$sort($prev, function($a, $b){true})`,
}

// ---- C19: clock ------------------------------------------------------------------

var clockAtoms = []string{
	`{"m": $millis()}`,
	`{"n": $now()}`,
	// the plain forms are by far the most common in real programs: weight them
	`{"n": $now()}`,
	`{"n": $now()}`,
	`{"m": $millis()}`,
	`$map([1, 2], function($v){ {"n": $now()} })`,
	`{"p": $now("` + ClockPicture + `")}`,
	`{"z5": $now("` + ClockPicture + `", "+0530")}`,
	`{"m": $toMillis($now())}`,
	`{"m": $now() ~> $toMillis()}`,
	`{"z5": $now(?, "+0530")("` + ClockPicture + `")}`,
	`($f := function(){ {"m": $millis()} }; $f())`,
	`$map([1], function($v){ {"n": $now()} })`,
	`($p := $now(?, "+0530"); {"z5": $p("` + ClockPicture + `")})`,
	`{"m": $millis() ~> $string() ~> $number()}`,
}

func (g *gen) tickMs() int {
	switch g.w.Intn(8) {
	case 0:
		return 0
	case 1:
		return g.w.Range(1, 9)
	case 2:
		return g.w.Range(10, 999)
	case 3:
		return g.w.Range(1000, 59999)
	case 4:
		return g.w.Range(60000, 86400000)
	case 5:
		return 86400000 * g.w.Range(1, 400)
	case 6:
		return 86400000 * 365 * g.w.Range(1, 10)
	default:
		// round values: timer-aligned tasks wake up at the same instant
		return []int{1, 2, 5, 10, 1000}[g.w.Intn(5)]
	}
}

func (g *gen) clockProgram() string {
	n := g.w.Range(2, 5)
	s := "["
	for i := 0; i < n; i++ {
		if i > 0 {
			s += ", "
		}
		if i > 0 && g.w.Chance(1, 2) {
			s += fmt.Sprintf(`{"t": $tick(%d)}, `, g.tickMs())
		}
		s += clockAtoms[g.w.Intn(len(clockAtoms))]
	}
	return s + "]"
}

func (g *gen) clock(spec *Spec) {
	spec.Kind = "clock"
	nt := g.k.Range(1, 6)
	if nt == 1 {
		spec.Strategy = StratSpec{Name: "rtc"}
	} else {
		spec.Strategy = g.concurrentStrategy()
	}
	far := g.k.Chance(1, 6) // start the run late in the representable span (year 2200+)
	ne := g.w.Range(1, 3)
	for i := 0; i < ne; i++ {
		spec.Exprs = append(spec.Exprs, ExprSpec{ID: fmt.Sprintf("e%d", i), Text: g.clockProgram(), Family: "clock", Exts: true})
	}
	for t := 0; t < nt; t++ {
		var ops []Op
		if far && t == 0 {
			ops = append(ops, Op{Kind: "sleep", Version: 86400000 * 365 * g.w.Range(200, 250)})
		}
		priv := 0
		n := g.w.Range(2, 6)
		if g.w.Chance(1, 4) {
			// a burst: many evaluations of one Expr less than a millisecond apart
			e := spec.Exprs[g.w.Intn(ne)].ID
			for k := g.w.Range(5, 12); k > 0; k-- {
				ops = append(ops, Op{Kind: "eval", Expr: e}, Op{Kind: "usleep", Version: g.w.Range(200, 900)})
			}
		}
		for i := 0; i < n; i++ {
			switch c := g.w.Intn(6); {
			case c == 0:
				ops = append(ops, Op{Kind: "sleep", Version: g.tickMs()})
			case c == 1:
				id := fmt.Sprintf("p%d", priv)
				priv++
				ops = append(ops, Op{Kind: "compile", Expr: id, Text: g.clockProgram(), Family: "clock", Exts: true})
				ops = append(ops, Op{Kind: "eval", Expr: id})
			default:
				ops = append(ops, Op{Kind: "eval", Expr: spec.Exprs[g.w.Intn(ne)].ID})
			}
		}
		spec.Tasks = append(spec.Tasks, ops)
	}
}
