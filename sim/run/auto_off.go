//go:build !autoyield

package run

// AutoYield reports whether this binary was built against the instrumented
// copy of the library (statement-granular yields).
const AutoYield = false

func installAuto() {}

// setClockShift: the library of this binary reads the real time.Now; there
// is no seam to shift it through.
func setClockShift(shift int64) int64 { return 0 }

// setMapOrder: map iteration order is the Go runtime's in this binary.
func setMapOrder(desc bool) bool { return false }
