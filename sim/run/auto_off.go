//go:build !autoyield

package run

// AutoYield reports whether this binary was built against the instrumented
// copy of the library (statement-granular yields).
const AutoYield = false

func installAuto() {}
