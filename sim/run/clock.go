package run

import (
	"encoding/json"
	"fmt"
	"time"
)

// Clock oracle (C19, clock clause only). A clock program returns nested
// arrays of single-member objects whose member name says how to decode the
// value into an instant:
//
//	m   number of milliseconds ($millis(), $toMillis($now()))
//	n   $now() in the default picture
//	p   $now("[Y0001]-[M01]-[D01]T[H01]:[m01]:[s01].[f001]")            (UTC)
//	z5  $now("[Y0001]-[M01]-[D01]T[H01]:[m01]:[s01].[f001]", "+0530")    (local time at +05:30)
//	t   the return value of $tick(d) (not a time)
const (
	ClockPicture = `[Y0001]-[M01]-[D01]T[H01]:[m01]:[s01].[f001]`
	layoutP      = "2006-01-02T15:04:05.000"
)

type instant struct {
	tag string
	ms  int64
	raw string
}

func collectInstants(v interface{}, out *[]instant, bad *[]string) {
	switch x := v.(type) {
	case []interface{}:
		for _, e := range x {
			collectInstants(e, out, bad)
		}
	case map[string]interface{}:
		for tag, val := range x {
			switch tag {
			case "t":
			case "m":
				f, ok := val.(float64)
				if !ok {
					*bad = append(*bad, fmt.Sprintf("m=%v", val))
					continue
				}
				*out = append(*out, instant{tag, int64(f), fmt.Sprint(val)})
			case "n":
				s, _ := val.(string)
				tm, err := time.Parse("2006-01-02T15:04:05.000Z07:00", s)
				if err != nil {
					*bad = append(*bad, fmt.Sprintf("n=%v", val))
					continue
				}
				*out = append(*out, instant{tag, tm.UnixMilli(), s})
			case "p":
				s, _ := val.(string)
				tm, err := time.ParseInLocation(layoutP, s, time.UTC)
				if err != nil {
					*bad = append(*bad, fmt.Sprintf("p=%v", val))
					continue
				}
				*out = append(*out, instant{tag, tm.UnixMilli(), s})
			case "z5":
				s, _ := val.(string)
				tm, err := time.ParseInLocation(layoutP, s, time.FixedZone("", 5*3600+30*60))
				if err != nil {
					*bad = append(*bad, fmt.Sprintf("z5=%v", val))
					continue
				}
				*out = append(*out, instant{tag, tm.UnixMilli(), s})
			default:
				collectInstants(val, out, bad)
			}
		}
	}
}

func floorMs(ns int64) int64 {
	ms := ns / 1e6
	if ns%1e6 < 0 {
		ms--
	}
	return ms
}

// clockChecks: every time-derived value of one evaluation denotes one
// instant T (whole milliseconds) with floor_ms(t0) <= T <= t1, where t0/t1
// is the simulated clock read by the task right before/after Eval.
func (r *runner) clockChecks(res *Result) {
	// reach probes: evaluations during which the clock moved, and pairs of
	// evaluations of different tasks that overlap in simulated time
	type iv struct {
		task   int
		t0, t1 int64
	}
	var ivs []iv
	for ti, ops := range r.spec.Tasks {
		for oi := range ops {
			or := &r.results[ti][oi]
			if ops[oi].Kind == "eval" && or.Done {
				if or.T1 > or.T0 {
					res.Probes["clock_advanced_inside"]++
				}
				ivs = append(ivs, iv{ti, or.T0, or.T1})
			}
		}
	}
	for i := range ivs {
		for j := i + 1; j < len(ivs); j++ {
			if ivs[i].task != ivs[j].task && ivs[i].t0 < ivs[j].t1 && ivs[j].t0 < ivs[i].t1 {
				res.Probes["clock_overlap"]++
			}
		}
	}
	for ti, ops := range r.spec.Tasks {
		for oi := range ops {
			op := &ops[oi]
			or := &r.results[ti][oi]
			if op.Kind != "eval" || !or.Done {
				continue
			}
			ei, ok := r.priv[ti][op.Expr]
			if !ok {
				ei = r.exprs[op.Expr]
			}
			key := ei.family + "|" + ei.text
			var v interface{}
			if err := json.Unmarshal([]byte(or.Outcome), &v); err != nil {
				r.report(res, Violation{Property: "C19", Class: "clock-undecodable", Oracle: "clock", Key: key, Task: ti, Op: oi,
					Detail: "clock program did not return JSON: " + clip(or.Outcome, 200)})
				continue
			}
			var ins []instant
			var bad []string
			collectInstants(v, &ins, &bad)
			if len(bad) > 0 {
				r.report(res, Violation{Property: "C19", Class: "clock-undecodable", Oracle: "clock", Key: key, Task: ti, Op: oi,
					Detail: fmt.Sprintf("cannot decode %v in %s", bad, clip(or.Outcome, 300))})
				continue
			}
			if len(ins) == 0 {
				continue
			}
			res.Probes["clock_values"] += len(ins)
			lo, hi := r.epochMs+floorMs(or.T0), r.epochMs+floorMs(or.T1)
			first := ins[0]
			for _, in := range ins {
				if in.ms != first.ms {
					r.report(res, Violation{Property: "C19", Class: "clock-not-one-instant", Oracle: "clock", Key: key, Task: ti, Op: oi,
						Detail: fmt.Sprintf("%s=%s denotes %d ms but %s=%s denotes %d ms in one evaluation (bracket %d..%d)",
							first.tag, first.raw, first.ms, in.tag, in.raw, in.ms, lo, hi)})
					break
				}
			}
			for _, in := range ins {
				if in.ms < lo || in.ms > hi {
					r.report(res, Violation{Property: "C19", Class: "clock-bracket", Oracle: "clock", Key: key, Task: ti, Op: oi,
						Detail: fmt.Sprintf("%s=%s denotes %d ms, outside the Eval bracket %d..%d ms", in.tag, in.raw, in.ms, lo, hi)})
					break
				}
			}
		}
	}
}
