//go:build autoyield

package run

import (
	"github.com/blues/jsonata-go/jsimy"

	"verif/sim/engine"
)

// AutoYield reports whether this binary was built against the instrumented
// copy of the library (statement-granular yields).
const AutoYield = true

func installAuto() {
	jsimy.Hook = func(site string) { engine.HookYield(site, nil) }
	jsimy.LockHook = engine.HookLockWait
	jsimy.QuietHook = engine.HookQuiet
}
