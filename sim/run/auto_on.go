//go:build autoyield

package run

import (
	"time"

	"github.com/blues/jsonata-go/jsimy"

	"verif/sim/engine"
)

// AutoYield reports whether this binary was built against the instrumented
// copy of the library (statement-granular yields).
const AutoYield = true

func installAuto() {
	jsimy.Hook = func(site string) { engine.HookYield(site, nil) }
	jsimy.LockHook = engine.HookLockWait
	jsimy.QuietHook = engine.HookQuiet
	if FixedClock {
		fixed := time.Date(2021, 3, 4, 5, 6, 7, 89000000, time.UTC)
		jsimy.NowHook = func() time.Time { return fixed }
	}
}

// setMapOrder fixes the iteration order of the library's map loops for the
// coming run; called by the controller before the tasks start.
func setMapOrder(desc bool) bool {
	jsimy.Descending = desc
	return desc
}

// setClockShift makes the library's clock (engine B) the simulated clock
// plus shift seconds; called by the controller before the tasks start.
func setClockShift(shift int64) int64 {
	if FixedClock {
		return 0
	}
	if shift == 0 {
		jsimy.NowHook = nil
		return 0
	}
	jsimy.NowHook = func() time.Time {
		n := time.Now()
		return time.Unix(n.Unix()+shift, int64(n.Nanosecond()))
	}
	return shift
}
