//go:build autoyield

package run

import (
	"time"

	"github.com/blues/jsonata-go/jsimy"

	"verif/sim/engine"
)

// AutoYield reports whether this binary was built against the instrumented
// copy of the library (statement-granular yields).
const AutoYield = true

func installAuto() {
	jsimy.Hook = func(site string) { engine.HookYield(site, nil) }
	jsimy.LockHook = engine.HookLockWait
	jsimy.QuietHook = engine.HookQuiet
	if FixedClock {
		fixed := time.Date(2021, 3, 4, 5, 6, 7, 89000000, time.UTC)
		jsimy.NowHook = func() time.Time { return fixed }
	}
}
