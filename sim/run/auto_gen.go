package run

import (
	"strings"
	"time"

	"verif/sim/engine"
	"verif/sim/work"
)

// GenerateFor is Generate for a given kind of worker: the auto-yield worker
// (a yield before every statement, ~20x the events) runs at most ten tasks of
// a generated workload.
func GenerateFor(prop string, seed uint64, tier string, auto bool) *Spec {
	s := Generate(prop, seed, tier)
	if auto {
		s.Auto = true
		if len(s.Tasks) > 10 {
			s.Tasks = s.Tasks[:10]
		}
		// `**.q` evaluates a step over the descendants in Go map order; at
		// statement granularity the items (maps, strings, numbers) take
		// different paths, so the event log would differ from process to
		// process. The node-granular worker keeps the program.
		for i := range s.Exprs {
			s.Exprs[i].Text = strings.ReplaceAll(s.Exprs[i].Text, "**.q", "items.q")
		}
		for _, ops := range s.Tasks {
			for i := range ops {
				ops[i].Text = strings.ReplaceAll(ops[i].Text, "**.q", "items.q")
			}
		}
		mo := engine.NewRNG(seed, "maporder")
		s.MapDescending = mo.Chance(1, 2)
		// programs whose evaluation or result order follows a Go map with
		// several entries: only here, where that order is the simulator's
		switch s.Kind {
		case "shared-expr", "per-task-expr", "shared-doc", "frame-seq", "history":
			pg := &work.Gen{R: mo, Ext: true}
			for i := range s.Exprs {
				if mo.Chance(1, 3) && len(s.Exprs[i].Vars) == 0 {
					p := pg.Program("mapord", mo.Range(0, 2))
					s.Exprs[i].Text, s.Exprs[i].Family = p.Text, p.Family
				}
			}
			for _, ops := range s.Tasks {
				for i := range ops {
					if ops[i].Kind == "compile" && ops[i].Family != "pipeline" && ops[i].Family != "churn" && ops[i].Family != "siblings" && len(ops[i].Vars) == 0 && mo.Chance(1, 4) {
						p := pg.Program("mapord", mo.Range(0, 2))
						ops[i].Text, ops[i].Family = p.Text, p.Family
					}
				}
			}
		}
		// far-future wall clock: every other clock run lives between the
		// years 2263 and 9995 (the in-bubble clock covers 255 years)
		if s.Kind == "clock" {
			rng := engine.NewRNG(seed, "clockshift")
			if rng.Chance(1, 2) {
				years := []int{263, 264, 300, 1000, 3000, 7000, 7740}[rng.Intn(7)]
				if rng.Chance(1, 2) {
					years = rng.Range(263, 7740)
				}
				s.ClockShiftSec = time.Date(2000+years, 1, 1, 0, 0, 0, 0, time.UTC).Unix() - time.Date(2000, 1, 1, 0, 0, 0, 0, time.UTC).Unix()
			}
		}
	}
	return s
}

// FixedClock is set by the engine-A worker: the auto-yield copy of the
// library then reads a fixed instant instead of the wall clock (engine A's
// oracles do not look at the clock; engine B simulates it).
var FixedClock bool
