package run

import "strings"

// GenerateFor is Generate for a given kind of worker: the auto-yield worker
// (a yield before every statement, ~20x the events) runs at most ten tasks of
// a generated workload.
func GenerateFor(prop string, seed uint64, tier string, auto bool) *Spec {
	s := Generate(prop, seed, tier)
	if auto {
		s.Auto = true
		if len(s.Tasks) > 10 {
			s.Tasks = s.Tasks[:10]
		}
		// `**.q` evaluates a step over the descendants in Go map order; at
		// statement granularity the items (maps, strings, numbers) take
		// different paths, so the event log would differ from process to
		// process. The node-granular worker keeps the program.
		for i := range s.Exprs {
			s.Exprs[i].Text = strings.ReplaceAll(s.Exprs[i].Text, "**.q", "items.q")
		}
		for _, ops := range s.Tasks {
			for i := range ops {
				ops[i].Text = strings.ReplaceAll(ops[i].Text, "**.q", "items.q")
			}
		}
	}
	return s
}

// FixedClock is set by the engine-A worker: the auto-yield copy of the
// library then reads a fixed instant instead of the wall clock (engine A's
// oracles do not look at the clock; engine B simulates it).
var FixedClock bool
