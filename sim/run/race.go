package run

import (
	"verif/sim/oracle"
	"reflect"
	"strings"
)

// AddrRange is a half-open range of addresses occupied by a container of an
// input document: the header of a map (the race detector attributes every map
// access to the address of the map header) or the element array of a slice.
type AddrRange struct{ Lo, Hi uint64 }

func docRanges(v interface{}, out *[]AddrRange, depth int) {
	if depth > 64 {
		return
	}
	switch x := v.(type) {
	case map[string]interface{}:
		p := uint64(reflect.ValueOf(x).Pointer())
		if p != 0 {
			*out = append(*out, AddrRange{p, p + 48})
		}
		for _, e := range x {
			docRanges(e, out, depth+1)
		}
	case *oracle.Rec:
		if x != nil {
			p := uint64(reflect.ValueOf(x).Pointer())
			*out = append(*out, AddrRange{p, p + uint64(reflect.TypeOf(*x).Size())})
			docRanges(x.In, out, depth+1)
			docRanges(x.Sub, out, depth+1)
		}
	case []oracle.Rec:
		if cap(x) > 0 {
			p := uint64(reflect.ValueOf(x).Pointer())
			*out = append(*out, AddrRange{p, p + uint64(cap(x))*uint64(reflect.TypeOf(x).Elem().Size())})
		}
	case []interface{}:
		if cap(x) > 0 {
			// up to the capacity: the spare part of a caller's array is the
			// caller's memory too
			p := uint64(reflect.ValueOf(x).Pointer())
			*out = append(*out, AddrRange{p, p + uint64(cap(x))*16})
		}
		for _, e := range x {
			docRanges(e, out, depth+1)
		}
	}
}

// RaceViolations turns the race reports attached to a result into
// violations of the property whose check is running:
//
//	C06: every report that involves library code;
//	C07: reports whose racing address lies inside an input document or a
//	     registered variable (a write into the caller's data, seen by
//	     another task's read under this schedule);
//	others: counted as foreign observations.
//
// A report with both stacks inside the harness is a harness bug: it is
// flagged (Note) and never reported as a violation.
func RaceViolations(res *Result) {
	for _, rep := range res.RaceReports {
		if rep.Harness {
			res.Note += " HARNESS-RACE " + rep.Pair
			continue
		}
		v := Violation{Class: "race", Oracle: "race-detector", Key: "race|" + rep.Pair, Task: -1,
			Detail: strings.Join(rep.Stacks, "\n  ")}
		switch {
		case res.Property == "C06":
			v.Property = "C06"
			res.Violations = append(res.Violations, v)
		case res.Property == "C07" && rep.InDoc:
			v.Property = "C07"
			v.Class = "race-in-document"
			res.Violations = append(res.Violations, v)
		default:
			if res.Foreign == nil {
				res.Foreign = map[string]int{}
			}
			res.Foreign["C06:race"]++
		}
	}
}
