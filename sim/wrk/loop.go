package wrk

import (
	"bufio"
	"encoding/json"
	"flag"
	"fmt"
	"os"

	"verif/sim/engine"
	"verif/sim/run"
)

// Flags of both worker binaries.
var (
	FlagProp      = flag.String("prop", "", "property id")
	FlagTier      = flag.String("tier", "quick", "quick|thorough")
	FlagFrom      = flag.Uint64("from", 1, "first seed")
	FlagCount     = flag.Int("count", 1, "number of seeds")
	FlagReplay    = flag.String("replay", "", "replay spec file")
	FlagGenspec   = flag.Bool("genspec", false, "print generated spec(s) and exit")
	FlagSelfcheck = flag.Bool("selfcheck", false, "re-execute every run from its recorded switch list and compare event-log hashes")
	FlagOut       = flag.String("out", "", "write result lines to this file instead of stdout")
)

// Exec executes one spec (engine A: directly; engine B: inside a bubble).
type Exec func(spec *run.Spec) *run.Result

// Loop is the body of a worker: generate or load specs, execute, emit one
// JSON line per run. It returns the process exit status.
func Loop(engineName string, exec Exec) int {
	if os.Getenv("VERIF_DEBUG_EVENTS") != "" {
		run.DebugEvents = true // the event log of every run goes into Result.Note
	}
	var w *bufio.Writer
	if *FlagOut != "" {
		f, err := os.Create(*FlagOut)
		if err != nil {
			fmt.Fprintln(os.Stderr, err)
			return 2
		}
		defer f.Close()
		w = bufio.NewWriter(f)
	} else {
		w = bufio.NewWriter(os.Stdout)
	}
	defer w.Flush()
	emit := func(v interface{}) {
		b, _ := json.Marshal(v)
		w.Write(b)
		w.WriteByte('\n')
		w.Flush()
	}
	emitWatchdog = func(seed uint64, note string) {
		emit(map[string]interface{}{"watchdog": true, "seed": seed, "note": note})
	}

	if *FlagReplay != "" {
		b, err := os.ReadFile(*FlagReplay)
		if err != nil {
			fmt.Fprintln(os.Stderr, err)
			return 2
		}
		var spec run.Spec
		if err := json.Unmarshal(b, &spec); err != nil {
			fmt.Fprintln(os.Stderr, err)
			return 2
		}
		if spec.Engine != engineName {
			fmt.Fprintf(os.Stderr, "spec is for engine %s, this worker is engine %s\n", spec.Engine, engineName)
			return 2
		}
		if spec.Switches == nil {
			spec.Switches = []engine.Switch{}
		}
		if spec.Auto != run.AutoYield {
			fmt.Fprintf(os.Stderr, "spec.auto=%v but this worker has autoyield=%v\n", spec.Auto, run.AutoYield)
			return 2
		}
		emit(exec(&spec))
		return 0
	}

	for i := 0; i < *FlagCount; i++ {
		seed := *FlagFrom + uint64(i)
		spec := run.GenerateFor(*FlagProp, seed, *FlagTier, run.AutoYield)
		if i == 0 && (spec.Kind == "shared-expr" || spec.Kind == "per-task-expr" || spec.Kind == "shared-doc") {
			spec.ColdStart = true // first run of this process
		}
		if *FlagGenspec {
			os.Stdout.Write(run.MarshalSpec(spec))
			os.Stdout.WriteString("\n")
			continue
		}
		res := exec(spec)
		if *FlagSelfcheck && !res.Tainted {
			rs := *spec
			rs.Switches = res.Switches
			if rs.Switches == nil {
				rs.Switches = []engine.Switch{}
			}
			res2 := exec(&rs)
			if res2.EventHash != res.EventHash {
				res.Note += fmt.Sprintf(" SELFCHECK-MISMATCH replay hash %s != %s", res2.EventHash, res.EventHash)
			}
		}
		emit(res)
		if res.Tainted {
			w.Flush()
			return 3
		}
	}
	return 0
}
