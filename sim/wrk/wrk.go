// Package wrk holds what the two worker binaries (engine A: plain binary,
// engine B: synctest test binary) share: the real-time watchdog, the
// race-detector log reader and the per-run wrapper.
package wrk

import (
	"bytes"
	"fmt"
	"os"
	"regexp"
	"runtime"
	"sort"
	"strconv"
	"strings"
	"syscall"
	"time"

	"verif/sim/engine"
	"verif/sim/run"
)

// StartWatchdog exits the process with status 2 when the simulation makes no
// scheduling step for `limit` of real time while a run is active (library
// code looping without reaching a yield point, or a harness bug). It never
// reports a violation.
func StartWatchdog(limit time.Duration) {
	go func() {
		runtime.LockOSThread()
		self := syscall.Gettid()
		last := engine.Progress()
		lastChange := time.Now()
		cpuAtChange := cpuSeconds()
		asleep := 0
		for {
			time.Sleep(250 * time.Millisecond)
			p := engine.Progress()
			if p != last || !busy.Load() || engine.Idle.Get() {
				last, lastChange, cpuAtChange = p, time.Now(), cpuSeconds()
				asleep = 0
				continue
			}
			// A process in which no thread but this one is running or
			// runnable, sample after sample, is not starved but blocked: a
			// task parked by the scheduler at a yield point holds a real lock
			// that the running task wants (synchronisation the simulator
			// does not own). Nothing will ever happen: give up after 8 s.
			if othersAsleep(self) {
				asleep++
			} else {
				asleep = 0
			}
			if asleep >= 32 {
				note := fmt.Sprintf("blocked: no scheduling step and every thread asleep for %.0fs (a lock the simulator does not own is held across a yield point)", time.Since(lastChange).Seconds())
				if emitWatchdog != nil {
					emitWatchdog(curSeed.Load(), note)
				}
				fmt.Fprintf(os.Stderr, "watchdog: seed %d: %s\n", curSeed.Load(), note)
				os.Exit(2)
			}
			// Judge by the CPU time this process consumed since the last
			// step (library code spinning without reaching a yield point),
			// so that an overloaded machine cannot trip the watchdog; a
			// process that neither steps nor burns CPU is blocked (real
			// mutex, deadlock) and gets six times the limit of wall time.
			spun := cpuSeconds() - cpuAtChange
			if spun > limit.Seconds() || time.Since(lastChange) > 6*limit {
				note := fmt.Sprintf("no scheduling step for %.0fs of wall time (%.0fs of CPU time)", time.Since(lastChange).Seconds(), spun)
				if emitWatchdog != nil {
					emitWatchdog(curSeed.Load(), note)
				}
				fmt.Fprintf(os.Stderr, "watchdog: seed %d: %s\n", curSeed.Load(), note)
				os.Exit(2)
			}
		}
	}()
}

// othersAsleep reports whether every thread of this process other than
// `self` is sleeping (state S in /proc): none running, runnable or in
// uninterruptible wait.
func othersAsleep(self int) bool {
	ents, err := os.ReadDir("/proc/self/task")
	if err != nil {
		return false
	}
	for _, e := range ents {
		if e.Name() == strconv.Itoa(self) {
			continue
		}
		b, err := os.ReadFile("/proc/self/task/" + e.Name() + "/stat")
		if err != nil {
			continue // the thread exited
		}
		// "<pid> (<comm>) <state> ..."
		i := bytes.LastIndexByte(b, ')')
		if i < 0 || i+2 >= len(b) {
			return false
		}
		if st := b[i+2]; st != 'S' {
			return false
		}
	}
	return true
}

func cpuSeconds() float64 {
	var ru syscall.Rusage
	if err := syscall.Getrusage(syscall.RUSAGE_SELF, &ru); err != nil {
		return 0
	}
	return float64(ru.Utime.Sec+ru.Stime.Sec) + float64(ru.Utime.Usec+ru.Stime.Usec)/1e6
}

// RaceLog reads the increments of the race detector's log file
// (GORACE=log_path=<prefix> writes <prefix>.<pid>).
type RaceLog struct {
	path string
	off  int64
}

// OpenRaceLog returns a reader for this process's race log, or nil when the
// binary is not race-instrumented or no log path is configured.
func OpenRaceLog() *RaceLog {
	if !engine.RaceBuild {
		return nil
	}
	prefix := os.Getenv("VERIF_RACELOG")
	if prefix == "" {
		return nil
	}
	return &RaceLog{path: fmt.Sprintf("%s.%d", prefix, os.Getpid())}
}

// Next returns the text appended since the last call.
func (l *RaceLog) Next() string {
	if l == nil {
		return ""
	}
	f, err := os.Open(l.path)
	if err != nil {
		return ""
	}
	defer f.Close()
	st, err := f.Stat()
	if err != nil || st.Size() <= l.off {
		return ""
	}
	buf := make([]byte, st.Size()-l.off)
	n, _ := f.ReadAt(buf, l.off)
	l.off += int64(n)
	return string(buf[:n])
}

var (
	reAccess = regexp.MustCompile(`^(Write|Read|Previous write|Previous read) at (0x[0-9a-f]+) by (main goroutine|goroutine \d+)`)
	reFrame  = regexp.MustCompile(`^  (\S.*)\(.*\)$|^  (\S+)$`)
)

// ParseRaceReports splits the race detector's output into reports and
// extracts, for each, the racing address and the top function of both access
// stacks that belongs to the library or the harness.
func ParseRaceReports(text string, docRanges []run.AddrRange) []run.RaceReport {
	var out []run.RaceReport
	for _, blk := range strings.Split(text, "WARNING: DATA RACE") {
		if !strings.Contains(blk, " at 0x") {
			continue
		}
		lines := strings.Split(blk, "\n")
		var rep run.RaceReport
		var tops []string
		var stacks []string
		allHarness := true
		i := 0
		for i < len(lines) {
			m := reAccess.FindStringSubmatch(lines[i])
			if m == nil {
				i++
				continue
			}
			kind, addr := m[1], m[2]
			rep.Addr = addr
			i++
			var frames []string
			for i < len(lines) && strings.TrimSpace(lines[i]) != "" {
				l := lines[i]
				if strings.HasPrefix(l, "  ") && !strings.HasPrefix(l, "      ") {
					fn := strings.TrimSpace(l)
					if k := strings.LastIndex(fn, "("); k > 0 {
						fn = fn[:k]
					}
					frames = append(frames, fn)
				}
				i++
			}
			top := ""
			for _, fn := range frames {
				if strings.HasPrefix(fn, "github.com/blues/jsonata-go") || strings.HasPrefix(fn, "verif/sim") {
					top = fn
					break
				}
			}
			if top == "" && len(frames) > 0 {
				top = frames[0]
			}
			lib := false
			for _, fn := range frames {
				if strings.HasPrefix(fn, "github.com/blues/jsonata-go") {
					lib = true
				}
			}
			if lib {
				allHarness = false
			}
			tops = append(tops, short(top))
			if strings.Contains(strings.ToLower(kind), "write") {
				rep.Write = short(top)
			}
			stacks = append(stacks, kind+": "+strings.Join(frames, " < "))
		}
		if len(tops) == 0 {
			continue
		}
		sort.Strings(tops)
		rep.Pair = strings.Join(tops, " | ")
		rep.Harness = allHarness
		rep.Stacks = stacks
		if a, err := strconv.ParseUint(strings.TrimPrefix(rep.Addr, "0x"), 16, 64); err == nil {
			for _, r := range docRanges {
				if a >= r.Lo && a < r.Hi {
					rep.InDoc = true
				}
			}
		}
		if len(blk) > 6000 {
			blk = blk[:6000]
		}
		rep.Text = "WARNING: DATA RACE" + blk
		out = append(out, rep)
	}
	return out
}

func short(fn string) string {
	fn = strings.TrimPrefix(fn, "github.com/blues/jsonata-go")
	fn = strings.TrimPrefix(fn, "/")
	fn = strings.TrimPrefix(fn, ".")
	return fn
}

// RunOne executes one spec and attaches the race reports emitted during it.
func RunOne(spec *run.Spec, rl *RaceLog, opt run.Options) *run.Result {
	curSeed.Store(spec.Seed)
	busy.Store(true)
	rl.Next() // discard anything left over (there should be nothing)
	res := run.Execute(spec, opt)
	busy.Store(false)
	if txt := rl.Next(); txt != "" {
		res.RaceReports = ParseRaceReports(txt, res.DocRanges)
	}
	run.RaceViolations(res)
	return res
}
