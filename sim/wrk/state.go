package wrk

import "sync/atomic"

var (
	busy    atomic.Bool
	curSeed atomic.Uint64
)

// emitWatchdog is installed by Loop so that the watchdog's last words go to
// the same place as result lines.
var emitWatchdog func(seed uint64, note string)
