package engine

import "fmt"

// ---- rw(p): random walk ----------------------------------------------------

type rwStrategy struct {
	rng *RNG
	den int
}

// NewRW switches to a random other runnable task with probability 1/den at
// every yield.
func NewRW(rng *RNG, den int) Strategy { return &rwStrategy{rng, den} }

func (r *rwStrategy) Name() string { return fmt.Sprintf("rw(1/%d)", r.den) }

//go:norace
func (r *rwStrategy) Pick(s *Sched, prev *Task, site string, obj interface{}, runnable []*Task, def *Task) *Task {
	if prev == nil || def != prev {
		return runnable[r.rng.Intn(len(runnable))]
	}
	if len(runnable) > 1 && r.rng.Chance(1, r.den) {
		return pickOther(r.rng, runnable, prev)
	}
	return def
}

//go:norace
func pickOther(rng *RNG, runnable []*Task, prev *Task) *Task {
	k := rng.Intn(len(runnable) - 1)
	for _, t := range runnable {
		if t == prev {
			continue
		}
		if k == 0 {
			return t
		}
		k--
	}
	return runnable[0]
}

// ---- pct(d) ------------------------------------------------------------------

type pctStrategy struct {
	rng     *RNG
	d       int
	change  map[int]bool
	inited  bool
	step    int
	lowNext int
	// windowOnly: only yields at call-window / shared-state / lock sites
	// count as steps (PCT over synchronisation operations, as in the
	// original algorithm): far fewer steps, so a given depth-d ordering is
	// hit with far higher probability
	windowOnly bool
}

// NewPCTW is PCT whose steps are the yields at window sites only.
func NewPCTW(rng *RNG, d, estSteps int) Strategy {
	p := NewPCT(rng, d, estSteps).(*pctStrategy)
	p.windowOnly = true
	return p
}

func isWindowSite(site string) bool {
	return windowSites[site] || (len(site) > 2 && site[0] == 'g' && site[1] == ':')
}

// NewPCT implements PCT: random distinct priorities, d-1 priority change
// points placed uniformly over [1,estSteps]; always run the highest-priority
// runnable task.
func NewPCT(rng *RNG, d, estSteps int) Strategy {
	p := &pctStrategy{rng: rng, d: d, change: map[int]bool{}}
	if estSteps < 1 {
		estSteps = 1
	}
	for i := 0; i < d-1; i++ {
		p.change[1+rng.Intn(estSteps)] = true
	}
	return p
}

func (p *pctStrategy) Name() string {
	if p.windowOnly {
		return fmt.Sprintf("pctw(%d)", p.d)
	}
	return fmt.Sprintf("pct(%d)", p.d)
}

//go:norace
func (p *pctStrategy) Pick(s *Sched, prev *Task, site string, obj interface{}, runnable []*Task, def *Task) *Task {
	if !p.inited {
		p.inited = true
		n := len(s.Tasks)
		perm := make([]int, n)
		for i := range perm {
			perm[i] = i
		}
		for i := n - 1; i > 0; i-- {
			j := p.rng.Intn(i + 1)
			perm[i], perm[j] = perm[j], perm[i]
		}
		for i, t := range s.Tasks {
			t.prio = perm[i] + p.d // initial priorities d..d+n-1
		}
		p.lowNext = p.d - 1
	}
	if !p.windowOnly || isWindowSite(site) {
		p.step++
		if p.change[p.step] && prev != nil {
			prev.prio = p.lowNext
			p.lowNext--
		}
	}
	best := runnable[0]
	for _, t := range runnable[1:] {
		if t.prio > best.prio {
			best = t
		}
	}
	return best
}

// ---- window -----------------------------------------------------------------

var windowSites = map[string]bool{
	"call.setctx": true, "call.args": true, "call.invoke": true, "gocall.ctxread": true,
	"gocall.invoke": true, "apply.rewrite": true, "apply.rewritten": true,
	"registry.copy": true, "registry.write": true, "transform.cloned": true,
	"transform.item": true, "err.name": true, "newenv.clock": true, "newenv.clocked": true,
	SiteLockWait: true, SiteExt: true, "lock.released": true,
}

type windowStrategy struct {
	rng *RNG
	den int
}

// NewWindow runs tasks to completion except that at call-window sites (where
// in-flight shared state exists) it switches with probability 1/den.
func NewWindow(rng *RNG, den int) Strategy { return &windowStrategy{rng, den} }

func (w *windowStrategy) Name() string { return fmt.Sprintf("window(1/%d)", w.den) }

//go:norace
func (w *windowStrategy) Pick(s *Sched, prev *Task, site string, obj interface{}, runnable []*Task, def *Task) *Task {
	if prev == nil || def != prev {
		return runnable[w.rng.Intn(len(runnable))]
	}
	if len(runnable) > 1 && (windowSites[site] || (len(site) > 2 && site[0] == 'g' && site[1] == ':')) && w.rng.Chance(1, w.den) {
		return pickOther(w.rng, runnable, prev)
	}
	return def
}

// ---- rtc: operation-granular -------------------------------------------------

type rtcStrategy struct {
	rng *RNG
	den int
}

// NewRTC never preempts inside an operation; at operation boundaries it
// switches with probability 1/den (den==0: only when the task is finished).
func NewRTC(rng *RNG, den int) Strategy { return &rtcStrategy{rng, den} }

func (r *rtcStrategy) Name() string { return fmt.Sprintf("rtc(%d)", r.den) }

//go:norace
func (r *rtcStrategy) Pick(s *Sched, prev *Task, site string, obj interface{}, runnable []*Task, def *Task) *Task {
	if prev == nil || def != prev {
		return runnable[r.rng.Intn(len(runnable))]
	}
	if r.den > 0 && site == SiteOpEnd && len(runnable) > 1 && r.rng.Chance(1, r.den) {
		return pickOther(r.rng, runnable, prev)
	}
	return def
}

// ---- duel: race-directed scheduling ---------------------------------------------

type duelStrategy struct {
	rng        *RNG
	frozen     *Task
	frozenSite string
	frozenAge  int
	a, b       *Task
	left       int
	k          int
}

// NewDuel is an active, race-directed strategy (in the spirit of RaceFuzzer):
// a task that reaches a shared-state site is, with probability 1/2, frozen
// there while the others run; as soon as another task reaches a shared-state
// site of the same source file, the two are alternated at every yield for the
// next k yields - which walks both through the statements around their
// accesses to the same state in lock step. Nothing is assumed about which
// sites conflict; the freeze is given up after a while.
func NewDuel(rng *RNG, k int) Strategy { return &duelStrategy{rng: rng, k: k} }

func (d *duelStrategy) Name() string { return fmt.Sprintf("duel(%d)", d.k) }

func siteFile(site string) string {
	for i := len(site) - 1; i >= 0; i-- {
		if site[i] == ':' {
			return site[:i]
		}
	}
	return site
}

//go:norace
func has(runnable []*Task, t *Task) bool {
	for _, x := range runnable {
		if x == t {
			return true
		}
	}
	return false
}

//go:norace
func (d *duelStrategy) Pick(s *Sched, prev *Task, site string, obj interface{}, runnable []*Task, def *Task) *Task {
	if prev == nil {
		return runnable[d.rng.Intn(len(runnable))]
	}
	// a duel in progress: alternate the two at every yield
	if d.left > 0 {
		d.left--
		other := d.a
		if prev == d.a {
			other = d.b
		}
		if has(runnable, other) {
			return other
		}
		if has(runnable, prev) {
			return prev
		}
		d.left = 0
		return def
	}
	shared := isWindowSite(site)
	if d.frozen != nil {
		d.frozenAge++
		if prev != d.frozen && shared && has(runnable, d.frozen) && has(runnable, prev) && siteFile(site) == siteFile(d.frozenSite) {
			d.a, d.b, d.left = d.frozen, prev, d.k
			d.frozen = nil
			return d.a
		}
		if d.frozenAge > 400 || !has(runnable, d.frozen) || len(runnable) == 1 {
			d.frozen = nil
			return def
		}
		// keep the frozen task parked
		if def != d.frozen {
			return def
		}
		return pickOther(d.rng, runnable, d.frozen)
	}
	if shared && len(runnable) > 1 && has(runnable, prev) && d.rng.Chance(1, 2) {
		d.frozen, d.frozenSite, d.frozenAge = prev, site, 0
		return pickOther(d.rng, runnable, prev)
	}
	if def != prev {
		return runnable[d.rng.Intn(len(runnable))]
	}
	return def
}
