// Package engine is the deterministic cooperative scheduler of the
// simulation: N tasks (real goroutines), exactly one runnable at any
// instant, every hand-over decided by the controller from a seeded PRNG or
// from an explicit switch list (replay).
//
// Soundness rules (DESIGN.md 2.1/2.3):
//   - all scheduler state is owned by the controller goroutine; tasks only
//     send one message per park and wait on their private resume channel;
//   - the park/resume channel operations are wrapped in
//     runtime.RaceDisable/RaceEnable so that the race detector does not see
//     the happens-before edges that the serialisation itself creates; task
//     start (go) and join (WaitGroup) stay visible;
//   - every function that touches scheduler memory is //go:norace.
package engine

import (
	"crypto/sha256"
	"fmt"
	"hash"
	"strconv"
	"sync"
	"sync/atomic"
)

// Site names used by the harness itself (library sites come from /repo hooks).
const (
	SiteStart    = "task.start"
	SiteOpEnd    = "op.end"
	SiteEval     = "eval"
	SiteLockWait = "lock.wait"
	SiteLockBlk  = "lock.blocked"
	SiteExt      = "ext.stall"
	SiteTick     = "tick"
	SiteDone     = "task.done"
)

// Switch is one explicit scheduling decision that differs from the default
// rule "continue the current task if it is runnable, else run the
// lowest-numbered runnable task". It is keyed by the position of the task
// that was running when the decision was taken.
type Switch struct {
	Task  int    `json:"task"`  // -1: the very first decision of the run
	Op    int    `json:"op"`    // operation index of Task
	Yield int    `json:"yield"` // yields of Task inside Op so far (1-based: after its n-th yield)
	Site  string `json:"site"`  // informational
	To    int    `json:"to"`
}

// Event is one entry of the event log.
type Event struct {
	Seq   int
	Task  int
	Op    int
	Yield int
	Site  string
	Next  int // task chosen to run next
}

type taskState int

const (
	stRunnable taskState = iota
	stBlocked
	stSleeping
	stDone
)

type msgKind int

const (
	mYield msgKind = iota
	mBlocked
	mSleep
	mDone
)

type msg struct {
	kind msgKind
	task *Task
	site string
	obj  interface{}
	d    int64 // sleep duration (ns) for mSleep
}

// Task is one simulated caller thread.
type Task struct {
	ID     int
	s      *Sched
	resume chan struct{}
	body   func(t *Task)

	// position, written by the task goroutine while it runs, read by the
	// controller while the task is parked (never concurrently)
	op      int
	yields  int // yields inside the current op
	steps   int // non-literal node evaluations inside the current op
	extCall int // harness-extension calls inside the current op

	// per-op fault descriptor installed by the run package
	Fault interface{}

	state  taskState
	wakeAt int64
	wakeSq int

	prio  int // PCT priority
	quiet int // >0: statement-granular yields are suppressed (inside a loop over a Go map)
}

// Op returns the index of the operation the task is executing.
//
//go:norace
func (t *Task) Op() int { return t.op }

// Steps returns the number of non-literal node evaluations of the current op.
//
//go:norace
func (t *Task) Steps() int { return t.steps }

// Yields returns the number of yields of the current op.
//
//go:norace
func (t *Task) Yields() int { return t.yields }

// NextExtCall increments and returns the per-op extension call counter.
//
//go:norace
func (t *Task) NextExtCall() int { t.extCall++; return t.extCall }

// BeginOp is called by the task before each operation.
//
//go:norace
func (t *Task) BeginOp(op int, fault interface{}) {
	t.op = op
	t.yields = 0
	t.steps = 0
	t.extCall = 0
	t.quiet = 0
	t.Fault = fault
}

// Strategy chooses the next task at a decision point. It runs on the
// controller goroutine only.
type Strategy interface {
	Name() string
	// Pick returns the task to run next. prev is the task that just parked
	// (nil for the first decision), runnable is sorted by task ID and not
	// empty, def is the default choice.
	Pick(s *Sched, prev *Task, site string, obj interface{}, runnable []*Task, def *Task) *Task
}

// Sched is one simulated run.
type Sched struct {
	Tasks    []*Task
	ctl      chan msg
	wg       sync.WaitGroup
	cur      *Task
	strategy Strategy

	replay   bool
	switches map[swKey]int
	Recorded []Switch

	Events     []Event // kept only when KeepEvents is set (debugging)
	KeepEvents bool
	EventCount int
	evHash     hash.Hash // streaming hash of the event log
	sigHash    hash.Hash // streaming hash of (task, site, next) at switches
	lastNext   int
	hbuf       []byte
	runBuf     []*Task
	preempt    map[string]int // preemptions by site
	MaxEvents  int
	Overflow  bool
	seq       int

	// results of the run
	Deadlock    bool // every unfinished task is blocked on the lock
	StepBudget  bool // MaxEvents exhausted
	LockWaits   int
	SwitchCount int
	unlockGen   int

	// simulated clock (engine B): the run package installs these
	Now     func() int64   // current simulated time (ns)
	Advance func(to int64) // move the simulated clock forward to `to`
	Drift   func() int64   // ns the clock moves while a preempted task is descheduled (0 = none)
	Drifts  int
	sleepSq int

	// probes
	Probes map[string]int
	// window tracking for probes: callable -> task that last passed call.setctx
	lastCtx  map[interface{}]int
	lastName map[interface{}]int
	lastArgs map[interface{}]int
}

type swKey struct{ task, op, yield int }

// active is the scheduler whose tasks are currently running. The hooks that
// /repo calls have no receiver, so they find the scheduler here.
var active *Sched

// progress is bumped at every scheduling step; the process-level watchdog
// reads it.
var progress atomic.Int64

// Progress returns the global step counter (for watchdogs).
func Progress() int64 { return progress.Load() }

// New creates a scheduler. switches == nil means "generate with strategy and
// record"; otherwise the explicit list is replayed and strategy is ignored.
//
//go:norace
func New(strategy Strategy, switches []Switch, maxEvents int) *Sched {
	s := &Sched{
		ctl:       make(chan msg),
		strategy:  strategy,
		MaxEvents: maxEvents,
		evHash:    sha256.New(),
		sigHash:   sha256.New(),
		lastNext:  -2,
		hbuf:      make([]byte, 0, 128),
		preempt:   map[string]int{},
		Probes:    map[string]int{},
		lastCtx:   map[interface{}]int{},
		lastName:  map[interface{}]int{},
		lastArgs:  map[interface{}]int{},
	}
	if switches != nil {
		s.replay = true
		s.switches = make(map[swKey]int, len(switches))
		for _, sw := range switches {
			s.switches[swKey{sw.Task, sw.Op, sw.Yield}] = sw.To
		}
	}
	return s
}

// AddTask registers a task body. Must be called before Run.
//
//go:norace
func (s *Sched) AddTask(body func(t *Task)) *Task {
	t := &Task{ID: len(s.Tasks), s: s, resume: make(chan struct{}), body: body}
	s.Tasks = append(s.Tasks, t)
	return t
}

// Current returns the task running on the calling goroutine, or nil when
// the caller is the controller (reference evaluations, set-up).
//
//go:norace
func Current() *Task {
	s := active
	if s == nil {
		return nil
	}
	return s.cur
}

// Active returns the scheduler of the run in progress.
//
//go:norace
func Active() *Sched { return active }

//go:norace
func (t *Task) main() {
	defer t.s.wg.Done()
	// wait for the first resume (hidden from the race detector)
	raceDisable()
	<-t.resume
	raceEnable()
	t.body(t)
	// final message; the controller never resumes a done task
	t.yields++
	raceDisable()
	t.s.ctl <- msg{kind: mDone, task: t, site: SiteDone}
	raceEnable()
}

// park hands control to the controller and waits to be resumed.
//
//go:norace
func (t *Task) park(m msg) {
	raceDisable()
	t.s.ctl <- m
	<-t.resume
	raceEnable()
}

// Yield is a scheduling point of the running task.
//
//go:norace
func (t *Task) Yield(site string, obj interface{}) {
	t.yields++
	t.park(msg{kind: mYield, task: t, site: site, obj: obj})
}

// Sleep parks the task for d simulated nanoseconds (engine B).
//
//go:norace
func (t *Task) Sleep(d int64) {
	t.yields++
	t.park(msg{kind: mSleep, task: t, site: SiteTick, d: d})
}

// HookYield is installed as jsonata.VerifYield.
//
//go:norace
func HookYield(site string, obj interface{}) {
	if LockCalib.On && lastMu != nil {
		switch site {
		case "registry.copy": // inside Compile's copy loop: is the read lock held?
			LockCalib.ReadSeen = true
			LockCalib.ReadHeld = !probe(lastMu, true)
		case "registry.write": // inside the registration loop: is the write lock held?
			LockCalib.WriteSeen = true
			LockCalib.WriteHeld = !probe(lastMu, false)
		}
	}
	s := active
	if s == nil || s.cur == nil {
		Ref.Yields++
		if Ref.Funcs != nil && site == "call.setname" && obj != nil {
			if n, ok := obj.(interface{ Name() string }); ok {
				Ref.Funcs[n.Name()]++
			}
		}
		return
	}
	if s.cur.quiet > 0 && len(site) > 2 && site[1] == ':' {
		return // "a:"/"g:" site inside a map-ordered loop
	}
	s.cur.Yield(site, obj)
}

// HookLockWait is installed as jsonata.VerifLockWait. It yields once (the
// acquisition is a scheduling point) and then polls the REAL mutex with
// TryLock/TryRLock, parking as blocked while the probe fails. No yield
// separates a successful probe from the caller's real Lock, so the real
// Lock never blocks inside the serialised simulation.
//
//go:norace
func HookLockWait(mu *sync.RWMutex, write bool) {
	lastMu = mu
	s := active
	if s == nil {
		return
	}
	t := s.cur
	if t == nil {
		return
	}
	t.Yield(SiteLockWait, nil)
	// The hook is called by the registry mutex's own Lock/RLock (wrapper type
	// in /repo, tag verif), i.e. exactly where the code takes the lock: code
	// that stops taking it stops being blocked here.
	for {
		if probe(mu, write) {
			return
		}
		t.yields++
		t.park(msg{kind: mBlocked, task: t, site: SiteLockBlk})
	}
}

//go:norace
func probe(mu *sync.RWMutex, write bool) bool {
	raceDisable()
	defer raceEnable()
	if write {
		if mu.TryLock() {
			mu.Unlock()
			return true
		}
		return false
	}
	if mu.TryRLock() {
		mu.RUnlock()
		return true
	}
	return false
}

// isUnlockSite reports whether passing this site may have released the lock.
func isUnlockSite(site string) bool {
	return site == "lock.released"
}

// Run starts all tasks and schedules them until all are done, the run is
// deadlocked or the event budget is exhausted. It returns after all task
// goroutines have been joined, unless the run was abandoned (Deadlock or
// StepBudget), in which case parked tasks are leaked and the caller must
// treat the process as tainted.
//
//go:norace
func (s *Sched) Run() {
	active = s
	for _, t := range s.Tasks {
		s.wg.Add(1)
		go t.main()
	}
	var prev *Task
	site := SiteStart
	var obj interface{}
	for {
		progress.Add(1)
		runnable := s.runnable()
		if len(runnable) == 0 {
			// nobody runnable: wake sleepers, or re-probe blocked tasks once
			if s.wakeNext() {
				continue
			}
			if s.unblockAll() {
				runnable = s.runnable()
			} else {
				break
			}
		}
		if len(runnable) == 0 {
			break
		}
		next := s.choose(prev, site, obj, runnable)
		if s.EventCount >= s.MaxEvents {
			s.StepBudget = true
			active = nil
			return
		}
		s.seq++
		ev := Event{Seq: s.seq, Task: -1, Site: site, Next: next.ID}
		if prev != nil {
			ev.Task, ev.Op, ev.Yield = prev.ID, prev.op, prev.yields
		}
		s.logEvent(ev)
		if prev != nil && next != prev {
			s.SwitchCount++
			if prev.state == stRunnable {
				s.preempt[site]++
				// a preempted thread does not stop the world's clock: time
				// may pass while it is descheduled (engine B only)
				if s.Drift != nil && s.Advance != nil && s.Now != nil {
					if d := s.Drift(); d > 0 {
						s.Advance(s.Now() + d)
						s.Drifts++
						s.wakeDue()
					}
				}
			}
		}

		// hand over
		s.cur = next
		raceDisable()
		next.resume <- struct{}{}
		m := <-s.ctl
		raceEnable()
		s.cur = nil

		prev, site, obj = m.task, m.site, m.obj
		switch m.kind {
		case mYield:
			s.probe(m)
			if isUnlockSite(m.site) {
				s.unblockAll()
			}
		case mBlocked:
			m.task.state = stBlocked
			s.LockWaits++
			s.Probes["lock_wait"]++
		case mSleep:
			m.task.state = stSleeping
			now := int64(0)
			if s.Now != nil {
				now = s.Now()
			}
			s.sleepSq++
			m.task.wakeAt, m.task.wakeSq = now+m.d, s.sleepSq
		case mDone:
			m.task.state = stDone
		}
	}
	active = nil
	// all done, or deadlock
	for _, t := range s.Tasks {
		if t.state != stDone {
			s.Deadlock = true
			return
		}
	}
	s.wg.Wait()
}

// logEvent appends one entry to the (streamed) event log.
//
//go:norace
func (s *Sched) logEvent(ev Event) {
	s.EventCount++
	if s.KeepEvents {
		s.Events = append(s.Events, ev)
	}
	b := s.hbuf[:0]
	b = strconv.AppendInt(b, int64(ev.Seq), 10)
	b = append(b, ' ')
	b = strconv.AppendInt(b, int64(ev.Task), 10)
	b = append(b, ' ')
	b = strconv.AppendInt(b, int64(ev.Op), 10)
	b = append(b, ' ')
	b = strconv.AppendInt(b, int64(ev.Yield), 10)
	b = append(b, ' ')
	b = append(b, ev.Site...)
	b = append(b, ' ')
	b = strconv.AppendInt(b, int64(ev.Next), 10)
	b = append(b, '\n')
	s.evHash.Write(b)
	if ev.Next != s.lastNext && ev.Task >= 0 && ev.Next != ev.Task {
		b = b[:0]
		b = strconv.AppendInt(b, int64(ev.Task), 10)
		b = append(b, ' ')
		b = append(b, ev.Site...)
		b = append(b, ' ')
		b = strconv.AppendInt(b, int64(ev.Next), 10)
		b = append(b, '\n')
		s.sigHash.Write(b)
	}
	s.lastNext = ev.Next
	s.hbuf = b
}

// EventHash returns the running hash object of the event log (the run
// package appends the operation outcomes and finalises it).
func (s *Sched) EventHash() hash.Hash { return s.evHash }

// SigSum returns the schedule signature.
func (s *Sched) SigSum() []byte { return s.sigHash.Sum(nil) }

// Preemptions returns the preemption counts by site.
func (s *Sched) Preemptions() map[string]int { return s.preempt }

//go:norace
func (s *Sched) runnable() []*Task {
	r := s.runBuf[:0]
	for _, t := range s.Tasks {
		if t.state == stRunnable {
			r = append(r, t)
		}
	}
	s.runBuf = r
	return r
}

// unblockAll makes every lock-blocked task eligible again (it will re-probe).
// Returns false when there is none, or when nothing has happened since the
// last blanket unblock (i.e. the re-probe already failed once with no other
// task able to run: deadlock).
//
//go:norace
func (s *Sched) unblockAll() bool {
	any := false
	for _, t := range s.Tasks {
		if t.state == stBlocked {
			any = true
		}
	}
	if !any {
		return false
	}
	if s.unlockGen == s.seq {
		return false
	}
	s.unlockGen = s.seq
	for _, t := range s.Tasks {
		if t.state == stBlocked {
			t.state = stRunnable
		}
	}
	return true
}

// wakeNext advances the simulated clock to the earliest wake-up and makes
// that task runnable. (At, Seq) is a total order.
//
//go:norace
func (s *Sched) wakeNext() bool {
	var best *Task
	for _, t := range s.Tasks {
		if t.state != stSleeping {
			continue
		}
		if best == nil || t.wakeAt < best.wakeAt || (t.wakeAt == best.wakeAt && t.wakeSq < best.wakeSq) {
			best = t
		}
	}
	if best == nil {
		return false
	}
	if s.Advance != nil {
		s.Advance(best.wakeAt)
	}
	// everything that is due at this instant wakes up together
	for _, t := range s.Tasks {
		if t.state == stSleeping && t.wakeAt <= best.wakeAt {
			t.state = stRunnable
		}
	}
	return true
}

// wakeDue makes the sleeping tasks whose wake-up time has passed runnable
// (after the clock moved for another reason than a wake-up).
//
//go:norace
func (s *Sched) wakeDue() {
	if s.Now == nil {
		return
	}
	now := s.Now()
	for _, t := range s.Tasks {
		if t.state == stSleeping && t.wakeAt <= now {
			t.state = stRunnable
		}
	}
}

//go:norace
func (s *Sched) choose(prev *Task, site string, obj interface{}, runnable []*Task) *Task {
	def := runnable[0]
	if prev != nil && prev.state == stRunnable {
		def = prev
	}
	key := swKey{-1, 0, 0}
	if prev != nil {
		key = swKey{prev.ID, prev.op, prev.yields}
	}
	if s.replay {
		if to, ok := s.switches[key]; ok {
			for _, t := range runnable {
				if t.ID == to {
					return t
				}
			}
		}
		return def
	}
	next := s.strategy.Pick(s, prev, site, obj, runnable, def)
	if next != def {
		s.Recorded = append(s.Recorded, Switch{Task: key.task, Op: key.op, Yield: key.yield, Site: site, To: next.ID})
	}
	return next
}

// probe maintains the "rare condition was hit" counters: did another task
// pass through the same shared object inside this task's call window?
//
//go:norace
func (s *Sched) probe(m msg) {
	if m.obj == nil {
		return
	}
	id := m.task.ID
	switch m.site {
	case "call.args": // just after SetContext
		s.lastCtx[m.obj] = id
	case "call.setctx": // just after SetName
		s.lastName[m.obj] = id
	case "gocall.ctxread":
		if w, ok := s.lastCtx[m.obj]; ok && w != id {
			s.Probes["ctx_window_overlap"]++
		}
	case "err.name":
		if w, ok := s.lastName[m.obj]; ok && w != id {
			s.Probes["name_window_overlap"]++
		}
	case "apply.rewritten":
		if w, ok := s.lastArgs[m.obj]; ok && w != id {
			s.Probes["args_rewrite_overlap"]++
		}
		s.lastArgs[m.obj] = id
	}
}

// LockCalib is filled by a calibration pass at process start (run package):
// one package-level registration and one Compile executed by the controller
// alone, during which the hooks inside the two critical sections probe the
// real mutex.
var LockCalib struct {
	On                   bool
	ReadSeen, ReadHeld   bool
	WriteSeen, WriteHeld bool
}

var lastMu *sync.RWMutex

// ---- reference-mode counters -------------------------------------------------

// Ref counts hook calls made while no simulation is running (the controller
// evaluating a reference alone). Only the controller touches it.
var Ref struct {
	Steps, Yields int
	// coverage of the reference evaluations (every triple a task evaluates
	// is also evaluated here): node types evaluated, callables called
	NodeTypes map[string]int
	Funcs     map[string]int
}

// AbortError is the error injected by an `abort` fault.
type AbortError struct{ Task, Op, Step int }

func (e *AbortError) Error() string { return "verif: injected abort" }

// StepFault is consulted at every non-literal node evaluation of a task. It
// is installed by the run package; it returns a non-nil error to abort the
// evaluation at this step.
var StepFault func(t *Task, step int) error

// IsLiteral is installed by the run package (it knows jparse); it reports
// whether a node is a literal that touches no shared state.
var IsLiteral func(node interface{}) bool

// HookStep is the body of jsonata.VerifStep (the run package wraps it to
// adapt the node type).
//
//go:norace
func HookStep(node interface{}) error {
	s := active
	if Ref.NodeTypes != nil && (s == nil || s.cur == nil) {
		Ref.NodeTypes[fmt.Sprintf("%T", node)]++
	}
	if IsLiteral != nil && IsLiteral(node) {
		return nil
	}
	if s == nil || s.cur == nil {
		Ref.Steps++
		return nil
	}
	t := s.cur
	t.steps++
	if StepFault != nil {
		if err := StepFault(t, t.steps); err != nil {
			return err
		}
	}
	t.Yield(SiteEval, nil)
	return nil
}
