//go:build race

package engine

import "runtime"

// RaceBuild reports whether the binary is race-instrumented.
const RaceBuild = true

//go:norace
func raceDisable() { runtime.RaceDisable() }

//go:norace
func raceEnable() { runtime.RaceEnable() }
