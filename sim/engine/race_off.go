//go:build !race

package engine

// RaceBuild reports whether the binary is race-instrumented.
const RaceBuild = false

func raceDisable() {}

func raceEnable() {}
