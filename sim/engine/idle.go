package engine

import "sync/atomic"

// Set marks the controller as idle (true) or simulating (false).
func (f *idleFlag) Set(b bool) {
	if b {
		atomic.StoreInt32(&f.v, 1)
	} else {
		atomic.StoreInt32(&f.v, 0)
	}
}

// Get reports whether the controller is idle.
func (f *idleFlag) Get() bool { return atomic.LoadInt32(&f.v) == 1 }

// HookQuiet adds delta to the quiet level of the running task and returns
// the new level. While it is positive the statement-granular yields of the
// instrumented copy ("a:"/"g:" sites) are suppressed for that task: the copy
// raises it around loops over Go maps, whose order is random.
//
//go:norace
func HookQuiet(delta int) int {
	t := Current()
	if t == nil {
		return 0
	}
	t.quiet += delta
	if t.quiet < 0 {
		t.quiet = 0
	}
	return t.quiet
}
