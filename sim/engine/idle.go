package engine

import "sync/atomic"

// Set marks the controller as idle (true) or simulating (false).
func (f *idleFlag) Set(b bool) {
	if b {
		atomic.StoreInt32(&f.v, 1)
	} else {
		atomic.StoreInt32(&f.v, 0)
	}
}

// Get reports whether the controller is idle.
func (f *idleFlag) Get() bool { return atomic.LoadInt32(&f.v) == 1 }
