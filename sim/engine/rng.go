package engine

// RNG is splitmix64. One stream per concern (workload, schedule, faults,
// clock) is derived from the run seed, so that adding a draw in one concern
// does not shift the others.
type RNG struct{ s uint64 }

func mix(z uint64) uint64 {
	z += 0x9e3779b97f4a7c15
	z = (z ^ (z >> 30)) * 0xbf58476d1ce4e5b9
	z = (z ^ (z >> 27)) * 0x94d049bb133111eb
	return z ^ (z >> 31)
}

// NewRNG derives the stream `stream` of seed.
func NewRNG(seed uint64, stream string) *RNG {
	h := mix(seed)
	for i := 0; i < len(stream); i++ {
		h = mix(h ^ uint64(stream[i]))
	}
	return &RNG{s: h}
}

//go:norace
func (r *RNG) Uint64() uint64 {
	r.s += 0x9e3779b97f4a7c15
	z := r.s
	z = (z ^ (z >> 30)) * 0xbf58476d1ce4e5b9
	z = (z ^ (z >> 27)) * 0x94d049bb133111eb
	return z ^ (z >> 31)
}

// Intn returns a value in [0,n).
//
//go:norace
func (r *RNG) Intn(n int) int {
	if n <= 1 {
		return 0
	}
	return int(r.Uint64() % uint64(n))
}

// Chance returns true with probability num/den.
//
//go:norace
func (r *RNG) Chance(num, den int) bool { return r.Intn(den) < num }

// Range returns a value in [lo,hi].
//
//go:norace
func (r *RNG) Range(lo, hi int) int { return lo + r.Intn(hi-lo+1) }

// Pick returns one element of a non-empty string slice.
func (r *RNG) Pick(xs []string) string { return xs[r.Intn(len(xs))] }

// Idle is set while the controller is doing work that makes no scheduling
// step (post-run oracles, linearizability checking); the watchdog ignores
// those periods.
var Idle idleFlag

type idleFlag struct{ v int32 }
