package main

import (
	"encoding/json"
	"fmt"
	"os"
	"strconv"
	"strings"

	"verif/sim/run"
)

// BatchReplay is the replay unit for a violation that depends on
// process-wide state left behind by earlier runs of the same worker process:
// the runs with seeds From..Seed are generated from their seeds (one integer
// each decides everything) and executed in that order in ONE fresh process;
// the violation is expected in the run of Seed.
type BatchReplay struct {
	Format   int         `json:"format"`
	Batch    bool        `json:"batch"`
	Property string      `json:"property"`
	Tier     string      `json:"tier"`
	From     uint64      `json:"from"`
	Seed     uint64      `json:"seed"`
	Auto     bool        `json:"auto,omitempty"` // executed by the auto-yield worker
	Expect   *run.Expect `json:"expect,omitempty"`
}

// runBatch executes seeds from..seed in one fresh process and returns the
// result of the last one.
func runBatch(cfg propCfg, tier string, from, seed uint64) *run.Result {
	args := []string{"-prop", *prop, "-tier", tier, "-from", strconv.FormatUint(from, 10), "-count", strconv.FormatUint(seed-from+1, 10)}
	results, _, _ := runWorker(cfg, args...)
	for _, r := range results {
		if r.Seed == seed {
			return r
		}
	}
	return nil
}

// confirmBatch re-executes the prefix of the batch in a fresh process; if
// the violation recurs in the run of `seed` it shortens the prefix (drops
// earlier runs) while it still recurs.
func confirmBatch(cfg propCfg, from, seed uint64, want run.Violation) (*BatchReplay, *run.Violation) {
	if from >= seed {
		return nil, nil
	}
	v := sameViolation(runBatch(cfg, *tier, from, seed), want, true)
	if v == nil {
		return nil, nil
	}
	// shorten: binary search for the latest start that still reproduces
	lo, hi := from, seed // lo reproduces; hi (alone) does not
	for tries := 0; hi-lo > 1 && tries < 12; tries++ {
		mid := lo + (hi-lo)/2
		if mv := sameViolation(runBatch(cfg, *tier, mid, seed), want, true); mv != nil {
			lo, v = mid, mv
		} else {
			hi = mid
		}
	}
	return &BatchReplay{Format: 1, Batch: true, Property: *prop, Tier: *tier, From: lo, Seed: seed, Auto: cfg.autoBin}, v
}

// replayBatch handles `check <id> --replay <batch file>`.
func replayBatch(cfg propCfg, b []byte) int {
	var br BatchReplay
	if err := json.Unmarshal(b, &br); err != nil {
		fmt.Fprintln(os.Stderr, "bad batch replay file:", err)
		return 2
	}
	cfg.autoBin = br.Auto
	res := runBatch(cfg, br.Tier, br.From, br.Seed)
	defer os.RemoveAll(scratch)
	if res == nil {
		fmt.Println("INFRA: batch replay produced no result for seed", br.Seed)
		return 2
	}
	if len(res.Violations) == 0 {
		fmt.Printf("NOT-REPRODUCED property=%s replay=%s (no oracle fired in the run of seed %d after the runs of seeds %d..%d)\n", *prop, *replayF, br.Seed, br.From, br.Seed-1)
		return 0
	}
	for _, v := range res.Violations {
		fmt.Printf("VIOLATION property=%s replay=%s\n  class=%s oracle=%s key=%q seed=%d (after the runs of seeds %d..%d in the same process)\n  %s\n",
			v.Property, *replayF, v.Class, v.Oracle, v.Key, br.Seed, br.From, br.Seed-1, strings.ReplaceAll(clip(v.Detail, 1500), "\n", "\n  "))
	}
	return 1
}
