package main

import (
	"encoding/json"
	"time"

	"verif/sim/engine"
	"verif/sim/run"
)

func nonNilSwitches() []engine.Switch { return []engine.Switch{} }

func cloneSpec(s *run.Spec) *run.Spec {
	b, _ := json.Marshal(s)
	var c run.Spec
	json.Unmarshal(b, &c)
	if c.Switches == nil {
		c.Switches = nonNilSwitches()
	}
	return &c
}

// dropTask removes task t and renumbers the switch list.
func dropTask(s *run.Spec, t int) *run.Spec {
	c := cloneSpec(s)
	c.Tasks = append(c.Tasks[:t], c.Tasks[t+1:]...)
	var sw []engine.Switch
	for _, x := range c.Switches {
		if x.Task == t || x.To == t {
			continue
		}
		if x.Task > t {
			x.Task--
		}
		if x.To > t {
			x.To--
		}
		sw = append(sw, x)
	}
	c.Switches = sw
	if c.Switches == nil {
		c.Switches = nonNilSwitches()
	}
	return c
}

// dropOp removes operation j of task t (unless later operations of the task
// depend on an expression it compiles) and renumbers the switch list.
func dropOp(s *run.Spec, t, j int) *run.Spec {
	op := s.Tasks[t][j]
	if op.Kind == "compile" {
		for _, later := range s.Tasks[t][j+1:] {
			if later.Expr == op.Expr {
				return nil
			}
		}
	}
	for _, later := range s.Tasks[t][j+1:] {
		if later.Kind == "eregresult" && later.Version == j {
			return nil // a later operation registers this operation's result
		}
	}
	c := cloneSpec(s)
	c.Tasks[t] = append(c.Tasks[t][:j], c.Tasks[t][j+1:]...)
	if len(c.Tasks[t]) == 0 {
		return nil
	}
	for i := j; i < len(c.Tasks[t]); i++ {
		if c.Tasks[t][i].Kind == "eregresult" && c.Tasks[t][i].Version > j {
			c.Tasks[t][i].Version-- // index of the operation whose result is registered
		}
	}
	var sw []engine.Switch
	for _, x := range c.Switches {
		if x.Task == t && x.Op == j {
			continue
		}
		if x.Task == t && x.Op > j {
			x.Op--
		}
		sw = append(sw, x)
	}
	c.Switches = sw
	if c.Switches == nil {
		c.Switches = nonNilSwitches()
	}
	return c
}

// minimise shrinks the failing spec while the same violation class (and key)
// persists: drop tasks, drop operations, drop faults, drop switch points,
// drop unused expressions and documents. Every candidate runs in a fresh
// process.
func minimise(cfg propCfg, spec *run.Spec, want run.Violation, res *run.Result) (*run.Spec, *run.Violation, *run.Result) {
	budget := 200
	deadline := time.Now().Add(90 * time.Second)
	best, bestV, bestRes := spec, &want, res
	try := func(c *run.Spec) bool {
		if c == nil || budget <= 0 || time.Now().After(deadline) {
			return false
		}
		budget--
		r, _ := runSpec(cfg, c)
		if v := sameViolation(r, want, true); v != nil {
			best, bestV, bestRes = c, v, r
			return true
		}
		return false
	}
	for changed := true; changed && budget > 0; {
		changed = false
		// tasks
		for t := len(best.Tasks) - 1; t >= 0 && len(best.Tasks) > 1; t-- {
			if try(dropTask(best, t)) {
				changed = true
			}
		}
		// operations, last first
		for t := len(best.Tasks) - 1; t >= 0; t-- {
			for j := len(best.Tasks[t]) - 1; j >= 0; j-- {
				if t < len(best.Tasks) && j < len(best.Tasks[t]) && try(dropOp(best, t, j)) {
					changed = true
				}
			}
		}
		// faults
		for t := range best.Tasks {
			for j := range best.Tasks[t] {
				if best.Tasks[t][j].Fault != nil {
					c := cloneSpec(best)
					c.Tasks[t][j].Fault = nil
					if try(c) {
						changed = true
					}
				}
			}
		}
		// switch points: halves first, then single points
		for n := len(best.Switches) / 2; n >= 1; n /= 2 {
			for i := 0; i+n <= len(best.Switches); {
				c := cloneSpec(best)
				c.Switches = append(append(nonNilSwitches(), c.Switches[:i]...), c.Switches[i+n:]...)
				if try(c) {
					changed = true
				} else {
					i += n
				}
			}
		}
	}
	// unused controller expressions and documents
	used := map[string]bool{}
	usedDoc := map[string]bool{}
	for _, ops := range best.Tasks {
		for _, op := range ops {
			used[op.Expr] = true
			usedDoc[op.Doc] = true
			for _, d := range op.Vars {
				usedDoc[d] = true
			}
		}
	}
	c := cloneSpec(best)
	c.Exprs = nil
	for _, e := range best.Exprs {
		if used[e.ID] {
			c.Exprs = append(c.Exprs, e)
			for _, d := range e.Vars {
				usedDoc[d] = true
			}
		}
	}
	c.Docs = nil
	for _, d := range best.Docs {
		if usedDoc[d.ID] {
			c.Docs = append(c.Docs, d)
		}
	}
	budget++
	try(c)
	return best, bestV, bestRes
}
