package main

import (
	"encoding/json"
	"fmt"
	"os"
	"path/filepath"
	"sort"
	"strings"

	"verif/sim/run"
)

// Cross-process oracle of C05: the outcome of one (program, document,
// bindings) triple must be the same in every worker process, whatever that
// process evaluated before. Inside one process a polluted process-wide cache
// makes an evaluation agree with its own (equally polluted) reference; across
// processes with different histories it cannot hide.

type leg struct {
	From uint64 `json:"from"`
	Seed uint64 `json:"seed"`
}

// CrossReplay: execute the runs of both legs, each leg in its own fresh
// process; the triple's outcomes in the runs of the two leg seeds differ.
type CrossReplay struct {
	Format   int         `json:"format"`
	Cross    bool        `json:"cross"`
	Property string      `json:"property"`
	Tier     string      `json:"tier"`
	Triple   string      `json:"triple"`
	Text     string      `json:"text"`
	Legs     [2]leg      `json:"legs"`
	Expect   *run.Expect `json:"expect,omitempty"`
}

type crossObs struct {
	leg  leg
	text string
}

type crossAgg struct {
	seen map[string]map[string]crossObs // triple -> outcome hash -> first observation
}

func (c *crossAgg) add(r *run.Result, batchFrom uint64) {
	if c.seen == nil {
		c.seen = map[string]map[string]crossObs{}
	}
	for _, o := range r.Outs {
		i := strings.IndexByte(o, ':')
		if i < 0 {
			continue
		}
		t, oh := o[:i], o[i+1:]
		if c.seen[t] == nil {
			c.seen[t] = map[string]crossObs{}
		}
		if _, ok := c.seen[t][oh]; !ok {
			c.seen[t][oh] = crossObs{leg{batchFrom, r.Seed}, r.OutTexts[t]}
		}
	}
}

func outcomeOf(r *run.Result, triple string) string {
	if r == nil {
		return ""
	}
	for _, o := range r.Outs {
		if strings.HasPrefix(o, triple+":") {
			return o[len(triple)+1:]
		}
	}
	return ""
}

// confirmCross re-executes both legs in fresh processes and shortens them.
func confirmCross(cfg propCfg, triple string, a, b leg) (leg, leg, string, string, bool) {
	oa := outcomeOf(runBatch(cfg, *tier, a.From, a.Seed), triple)
	ob := outcomeOf(runBatch(cfg, *tier, b.From, b.Seed), triple)
	if oa == "" || ob == "" || oa == ob {
		return a, b, oa, ob, false
	}
	shorten := func(l leg, other string) leg {
		lo, hi := l.From, l.Seed+1 // lo keeps the difference
		for tries := 0; hi-lo > 1 && tries < 10; tries++ {
			mid := lo + (hi-lo)/2
			if mid > l.Seed {
				break
			}
			if o := outcomeOf(runBatch(cfg, *tier, mid, l.Seed), triple); o != "" && o != other {
				lo = mid
			} else {
				hi = mid
			}
		}
		return leg{lo, l.Seed}
	}
	// shorten each leg while its outcome still differs from the other leg's
	a2 := shorten(a, ob)
	b2 := shorten(b, outcomeOf(runBatch(cfg, *tier, a2.From, a2.Seed), triple))
	return a2, b2, oa, ob, true
}

// crossCheck returns the violations of the cross-process oracle (at most max).
func (c *crossAgg) crossCheck(cfg propCfg, max int) []crossFinding {
	var triples []string
	for t, m := range c.seen {
		if len(m) > 1 {
			triples = append(triples, t)
		}
	}
	sort.Strings(triples)
	var out []crossFinding
	for _, t := range triples {
		if len(out) >= max {
			break
		}
		var obs []crossObs
		var keys []string
		for oh := range c.seen[t] {
			keys = append(keys, oh)
		}
		sort.Strings(keys)
		for _, oh := range keys {
			obs = append(obs, c.seen[t][oh])
		}
		a, b, oa, ob, ok := confirmCross(cfg, t, obs[0].leg, obs[1].leg)
		if !ok {
			fmt.Printf("UNCONFIRMED property=%s class=history-dependence-across-processes triple=%s: outcomes did not differ again in fresh processes (not reported)\n", *prop, t)
			continue
		}
		text := obs[0].text
		if i := strings.Index(text, " -> "); i > 0 {
			text = text[:i]
		}
		v := run.Violation{Property: "C05", Class: "history-dependence-across-processes", Oracle: "cross-process-outcome", Key: "cross|" + text, Task: -1,
			Detail: fmt.Sprintf("the same call gives different outcomes in two processes with different histories:\n  process 1 (runs of seeds %d..%d): %s\n  process 2 (runs of seeds %d..%d): %s\n  (outcome hashes %s / %s)",
				a.From, a.Seed, obs[0].text, b.From, b.Seed, obs[1].text, oa, ob)}
		cr := &CrossReplay{Format: 1, Cross: true, Property: *prop, Tier: *tier, Triple: t, Text: text, Legs: [2]leg{a, b},
			Expect: &run.Expect{Class: v.Class, Key: v.Key}}
		path := filepath.Join(*verif, "replays", fmt.Sprintf("%s-%d-cross-%s.json", *prop, a.Seed, t))
		os.MkdirAll(filepath.Dir(path), 0o755)
		bb, _ := json.MarshalIndent(cr, "", " ")
		os.WriteFile(path, bb, 0o644)
		out = append(out, crossFinding{v: v, replay: path, seed: a.Seed})
	}
	return out
}

type crossFinding struct {
	v      run.Violation
	replay string
	seed   uint64
}

// replayCross handles `check C05 --replay <cross file>`.
func replayCross(cfg propCfg, b []byte) int {
	var cr CrossReplay
	if err := json.Unmarshal(b, &cr); err != nil {
		fmt.Fprintln(os.Stderr, "bad cross replay file:", err)
		return 2
	}
	defer os.RemoveAll(scratch)
	ra := runBatch(cfg, cr.Tier, cr.Legs[0].From, cr.Legs[0].Seed)
	rb := runBatch(cfg, cr.Tier, cr.Legs[1].From, cr.Legs[1].Seed)
	oa, ob := outcomeOf(ra, cr.Triple), outcomeOf(rb, cr.Triple)
	if oa == "" || ob == "" {
		fmt.Println("INFRA: cross replay: the call was not evaluated in one of the legs")
		return 2
	}
	if oa == ob {
		fmt.Printf("NOT-REPRODUCED property=%s replay=%s (%s gives the same outcome in both processes)\n", *prop, *replayF, cr.Text)
		return 0
	}
	fmt.Printf("VIOLATION property=%s replay=%s\n  class=history-dependence-across-processes key=%q\n  process 1 (seeds %d..%d): %s\n  process 2 (seeds %d..%d): %s\n",
		*prop, *replayF, "cross|"+cr.Text, cr.Legs[0].From, cr.Legs[0].Seed, ra.OutTexts[cr.Triple], cr.Legs[1].From, cr.Legs[1].Seed, rb.OutTexts[cr.Triple])
	return 1
}
