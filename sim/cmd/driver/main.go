// Command driver runs one check: it fans simulated runs out to worker
// processes, confirms every suspected violation alone in a fresh process,
// minimises it, writes the replay file and the evidence file, and applies
// the known-findings list.
//
//	driver -prop C06 -tier quick|thorough -bin <dir> -verif /verif
//	driver -prop C06 -replay <file> -bin <dir> -verif /verif
//
// Exit status: 0 property held on everything explored (KNOWN-FINDING lines
// allowed), 1 violation (a line "VIOLATION property=<id> replay=<path>"),
// 2 infrastructure trouble (build, watchdog, tainted runs, harness race).
package main

import (
	"bufio"
	"bytes"
	"crypto/sha256"
	"encoding/hex"
	"encoding/json"
	"flag"
	"fmt"
	"os"
	"os/exec"
	"path/filepath"
	"sort"
	"strconv"
	"strings"
	"sync"
	"time"

	"verif/sim/run"
)

type propCfg struct {
	engine      string // A or B
	race        bool
	quickRuns   int
	batch       int
	thoroughSec int
	rule        string
	level       string
	stubs       []string
	auto        bool // the check also runs the auto-yield worker (instrumented copy of the library)
	autoBin     bool // this invocation uses the auto-yield worker
}

var cfgs = map[string]propCfg{
	"C05": {engine: "A", race: false, auto: true, quickRuns: 6000, batch: 200, thoroughSec: 600,
		rule: "one run = one seeded history of 2..12 public-API operations (Eval/EvalBytes/String/Compile of other expressions, aborted and extension-faulted evaluations) on a pool of 2..6 shared Exprs; evaluations = operations executed; distinct_nontrivial = distinct (program text, document, bindings) triples that were evaluated at >= 2 different history positions (only those can expose history dependence)"},
	"C06": {engine: "A", race: true, auto: true, quickRuns: 4000, batch: 100, thoroughSec: 900,
		rule: "one run = one seeded schedule of 2..8 (thorough: 2..32) tasks over shared-Expr / per-task-Expr / register||compile workloads under the race detector; evaluations = simulated runs; distinct_nontrivial = distinct schedule signatures (hash of the (task, site, next-task) sequence at switches) among runs with >= 1 preemption inside another task's call window (a hook site other than node entry / operation end)"},
	"C07": {engine: "A", race: true, auto: true, quickRuns: 3000, batch: 100, thoroughSec: 600,
		rule: "one run = seeded operations on documents and registered variables (sequential with aborts/extension faults between a transform's clone and its writes, or 2..6 tasks sharing ONE document object); evaluations = operations executed; distinct_nontrivial = distinct (program text, document) pairs in which the program belongs to a copying/transform family (transform, outside, arrn, arrs, obj)"},
	"C19": {engine: "B", race: true, auto: true, quickRuns: 1500, batch: 100, thoroughSec: 600,
		rule: "one run = 1..6 tasks evaluating clock programs ($millis/$now in several pictures, inside lambdas, partials, chains) separated by $tick(d) stalls and clock jumps of 1 ms..10 years under a simulated clock (testing/synctest); evaluations = simulated runs; distinct_nontrivial = distinct schedule signatures among runs in which >= 2 evaluations overlapped in simulated time or the clock advanced inside an evaluation"},
	"C20": {engine: "A", race: true, auto: true, quickRuns: 3000, batch: 100, thoroughSec: 600,
		rule: "one run = a registry history (package-level RegisterVars/RegisterExts || Compile, Expr-level overlays, rejected registrations, probes) checked for linearizability against a sequential model, or extension calls under injected error/undefined/panic/stall faults with window preemption; evaluations = simulated runs; distinct_nontrivial = distinct event-log hashes among runs that had a registration concurrent with a compile/probe, or in which an extension fault fired"},
}

type finding struct {
	Property string `json:"property"`
	Class    string `json:"class"`
	Key      string `json:"key"`
	What     string `json:"what"`
}

type knownFile struct {
	Findings []finding `json:"findings"`
	Fixed    []string  `json:"fixed"`
}

var (
	prop    = flag.String("prop", "", "property id")
	tier    = flag.String("tier", "quick", "quick|thorough")
	binDir  = flag.String("bin", "", "directory with worker binaries")
	verif   = flag.String("verif", "/verif", "verif root")
	replayF = flag.String("replay", "", "replay file")
	workers = flag.Int("workers", 16, "parallel worker processes")
	runsF   = flag.Int("runs", 0, "override number of runs")
	secsF   = flag.Int("secs", 0, "override thorough seconds")
	noMin   = flag.Bool("nomin", false, "skip minimisation")
	noAuto  = flag.Bool("noauto", false, "the auto-yield worker is not available (it could not be built against this tree)")
	scratch string
)

func main() {
	flag.Parse()
	var err error
	scratch, err = os.MkdirTemp(*binDir, "drv")
	if err != nil {
		fmt.Fprintln(os.Stderr, err)
		os.Exit(2)
	}
	if *selftestF {
		os.Exit(doSelftest())
	}
	cfg, ok := cfgs[*prop]
	if !ok {
		fmt.Fprintln(os.Stderr, "driver: unknown property", *prop)
		os.Exit(2)
	}
	if *noAuto {
		cfg.auto = false
	}
	if *replayF != "" {
		os.Exit(doReplay(cfg))
	}
	os.Exit(doCheck(cfg))
}

// ---- worker invocation --------------------------------------------------------

func workerCmd(cfg propCfg, args ...string) *exec.Cmd {
	var cmd *exec.Cmd
	suffix := ""
	if cfg.autoBin {
		suffix = "-auto"
	}
	if cfg.engine == "B" {
		a := append([]string{"-test.run", "^TestWorker$", "-test.timeout", "0"}, args...)
		cmd = exec.Command(filepath.Join(*binDir, "workerb"+suffix+".test"), a...)
	} else if cfg.race {
		cmd = exec.Command(filepath.Join(*binDir, "worker-race"+suffix), args...)
	} else {
		cmd = exec.Command(filepath.Join(*binDir, "worker"+suffix), args...)
	}
	return cmd
}

var raceSeq int
var raceMu sync.Mutex

// runWorker runs one worker process and returns its result lines.
func runWorker(cfg propCfg, args ...string) (results []*run.Result, infra []string, exit int) {
	return runWorkerWith(cfg, nil, args...)
}

func runWorkerWith(cfg propCfg, extraEnv []string, args ...string) (results []*run.Result, infra []string, exit int) {
	raceMu.Lock()
	raceSeq++
	n := raceSeq
	raceMu.Unlock()
	outFile := filepath.Join(scratch, fmt.Sprintf("out%d.jsonl", n))
	racePrefix := filepath.Join(scratch, fmt.Sprintf("race%d", n))
	args = append(args, "-out", outFile)
	cmd := workerCmd(cfg, args...)
	cmd.Env = append(os.Environ(),
		"GORACE=halt_on_error=0 exitcode=0 atexit_sleep_ms=0 log_path="+racePrefix,
		"VERIF_RACELOG="+racePrefix)
	if os.Getenv("GOMAXPROCS") == "" {
		// the simulation runs one task at a time; more Ps only add spinning
		// threads that fight the other worker processes for the cores
		cmd.Env = append(cmd.Env, "GOMAXPROCS=2")
	}
	cmd.Env = append(cmd.Env, extraEnv...)
	var stderr bytes.Buffer
	cmd.Stderr = &stderr
	cmd.Stdout = &stderr
	err := cmd.Run()
	exit = 0
	if err != nil {
		if ee, ok := err.(*exec.ExitError); ok {
			exit = ee.ExitCode()
		} else {
			exit = 2
			infra = append(infra, "cannot start worker: "+err.Error())
		}
	}
	f, ferr := os.Open(outFile)
	if ferr == nil {
		sc := bufio.NewScanner(f)
		sc.Buffer(make([]byte, 1<<20), 64<<20)
		for sc.Scan() {
			line := sc.Bytes()
			if bytes.Contains(line, []byte(`"watchdog":true`)) {
				infra = append(infra, "watchdog: "+string(line))
				continue
			}
			var r run.Result
			if json.Unmarshal(line, &r) == nil {
				results = append(results, &r)
			}
		}
		f.Close()
		os.Remove(outFile)
	}
	if m, _ := filepath.Glob(racePrefix + ".*"); len(m) > 0 {
		for _, p := range m {
			os.Remove(p)
		}
	}
	// engine B: a failing subtest (race report) makes the test binary exit 1;
	// that is expected and carries no information.
	if cfg.engine == "B" && exit == 1 {
		exit = 0
	}
	if exit != 0 && exit != 3 {
		msg := stderr.String()
		if len(msg) > 1500 {
			msg = msg[len(msg)-1500:]
		}
		infra = append(infra, fmt.Sprintf("worker exit %d: %s", exit, msg))
	}
	return
}

// ---- aggregation --------------------------------------------------------------

type agg struct {
	runs, ops, events   int
	autoRuns            int
	autoBudget          int
	switches, windowSw  int
	faults, probes      map[string]int
	foreign             map[string]int
	families, kinds     map[string]int
	nodeTypes, funcs    map[string]int
	cross               crossAgg
	strategies          map[string]int
	tasksHist           map[string]int
	schedSigs           map[string]bool
	nontrivial          map[string]bool
	hashes              map[string]bool
	raceReports         int
	inconclusive        int
	linearized          int
	confounded          int
	simSeconds          float64 // summed as seconds: a run may cover 255 years, int64 nanoseconds overflow over a batch
	samples             []interface{}
	seedsLo, seedsHi    uint64
	tainted             []string
	harnessRaces        []string
	selfcheckMismatches []string
	violations          []*hit
}

type hit struct {
	res       *run.Result
	v         run.Violation
	batchFrom uint64 // first seed of the worker process that executed the run
	auto      bool   // executed by the auto-yield worker
}

func newAgg() *agg {
	return &agg{faults: map[string]int{}, probes: map[string]int{}, foreign: map[string]int{}, families: map[string]int{},
		kinds: map[string]int{}, strategies: map[string]int{}, tasksHist: map[string]int{}, schedSigs: map[string]bool{},
		nontrivial: map[string]bool{}, hashes: map[string]bool{}, nodeTypes: map[string]int{}, funcs: map[string]int{}}
}

func (a *agg) add(p string, r *run.Result, batchFrom uint64, auto bool, spec func() *run.Spec) {
	a.runs++
	if auto {
		a.autoRuns++
	}
	a.ops += r.Ops
	a.events += r.Events
	a.switches += r.SwitchCount
	a.windowSw += r.WindowSw
	a.kinds[r.Kind]++
	a.strategies[r.Strategy]++
	a.tasksHist[strconv.Itoa(r.Tasks)]++
	a.simSeconds += float64(r.SimNanos) / 1e9
	a.inconclusive += r.Inconcl
	a.linearized += r.Linearized
	a.raceReports += len(r.RaceReports)
	for k, v := range r.Faults {
		a.faults[k] += v
	}
	for k, v := range r.Probes {
		a.probes[k] += v
	}
	for k, v := range r.Foreign {
		a.foreign[k] += v
	}
	for k, v := range r.Families {
		a.families[k] += v
	}
	for k, v := range r.NodeTypes {
		a.nodeTypes[strings.TrimPrefix(k, "*jparse.")] += v
	}
	for k, v := range r.Funcs {
		a.funcs[k] += v
	}
	a.schedSigs[r.SchedSig] = true
	a.hashes[r.EventHash] = true
	switch p {
	case "C05":
		for _, t := range r.Triples {
			a.nontrivial[t] = true
		}
	case "C06":
		if r.WindowSw > 0 {
			a.nontrivial[r.SchedSig] = true
		}
	case "C07":
		for _, t := range r.NontrivKeys {
			a.nontrivial[t] = true
		}
	case "C19":
		if r.Probes["clock_overlap"] > 0 || r.Probes["clock_advanced_inside"] > 0 {
			a.nontrivial[r.SchedSig+r.EventHash[:8]] = true
		}
	case "C20":
		if r.Probes["reg_concurrent"] > 0 || len(r.Faults) > 0 {
			a.nontrivial[r.EventHash] = true
		}
	}
	if strings.Contains(r.Note, "HARNESS-RACE") {
		a.harnessRaces = append(a.harnessRaces, fmt.Sprintf("seed %d: %s", r.Seed, r.Note))
	}
	if strings.Contains(r.Note, "SELFCHECK-MISMATCH") {
		a.selfcheckMismatches = append(a.selfcheckMismatches, fmt.Sprintf("seed %d", r.Seed))
	}
	if r.Tainted && !r.Deadlock {
		if auto {
			// statement-granular runs of many tasks can outgrow the event
			// budget on a healthy tree: abandoned, counted, not an error
			a.autoBudget++
		} else {
			a.tainted = append(a.tainted, fmt.Sprintf("seed %d: step budget exhausted", r.Seed))
		}
	}
	if strings.HasPrefix(r.Note, "controller compile failed") {
		a.tainted = append(a.tainted, fmt.Sprintf("seed %d: %s", r.Seed, r.Note))
	}
	for _, v := range r.Violations {
		a.violations = append(a.violations, &hit{res: r, v: v, batchFrom: batchFrom, auto: auto})
	}
	if p == "C05" {
		a.cross.add(r, batchFrom)
	}
	if len(a.samples) < 3 {
		a.samples = append(a.samples, sampleOf(r, spec()))
	}
}

func sampleOf(r *run.Result, s *run.Spec) interface{} {
	type taskS struct {
		Ops []string `json:"ops"`
	}
	var tasks []taskS
	texts := map[string]string{}
	for _, e := range s.Exprs {
		texts[e.ID] = e.Text
	}
	for _, ops := range s.Tasks {
		var t taskS
		for _, op := range ops {
			d := op.Kind
			switch op.Kind {
			case "eval", "evalbytes", "string", "probe":
				txt := texts[op.Expr]
				if txt == "" {
					txt = op.Expr
				}
				d += " " + clip(txt, 80) + " on " + op.Doc
			case "compile":
				d += " " + op.Expr + " := " + clip(op.Text, 80)
			case "sleep":
				d += fmt.Sprintf(" %dms", op.Version)
			default:
				d += fmt.Sprintf(" %v v%d %s", op.Names, op.Version, op.Invalid)
			}
			if op.Fault != nil {
				d += fmt.Sprintf(" FAULT %s@%d", op.Fault.Kind, op.Fault.At)
			}
			t.Ops = append(t.Ops, d)
		}
		tasks = append(tasks, t)
	}
	sw := r.Switches
	if len(sw) > 12 {
		sw = sw[:12]
	}
	return map[string]interface{}{"seed": r.Seed, "kind": r.Kind, "strategy": r.Strategy, "tasks": tasks,
		"switches_recorded": len(r.Switches), "first_switches": sw, "events": r.Events, "event_hash": r.EventHash}
}

func clip(s string, n int) string {
	if len(s) > n {
		return s[:n] + "..."
	}
	return s
}

// ---- the check ---------------------------------------------------------------

func seedBase() uint64 {
	if s := os.Getenv("VERIF_SEED"); s != "" {
		if v, err := strconv.ParseUint(s, 10, 64); err == nil {
			return v
		}
		if v, err := strconv.ParseInt(s, 10, 64); err == nil {
			return uint64(v)
		}
	}
	return 20260922
}

func doCheck(cfg propCfg) int {
	start := time.Now()
	base := seedBase()
	first := base*1000003 + 1
	a := newAgg()
	a.seedsLo = first
	var infra []string
	var mu sync.Mutex

	total := cfg.quickRuns
	deadline := time.Time{}
	if *runsF > 0 {
		total = *runsF
	}
	if *tier == "thorough" {
		secs := cfg.thoroughSec
		if s := os.Getenv("VERIF_BUDGET_S"); s != "" {
			if v, err := strconv.Atoi(s); err == nil {
				secs = v
			}
		}
		if *secsF > 0 {
			secs = *secsF
		}
		deadline = start.Add(time.Duration(secs) * time.Second)
		total = 1 << 40
	} else {
		deadline = start.Add(240 * time.Second) // hard cap for the quick tier
	}

	next := first
	nextMu := sync.Mutex{}
	take := func() (uint64, int, bool) {
		nextMu.Lock()
		defer nextMu.Unlock()
		done := int(next - first)
		if done >= total || time.Now().After(deadline) {
			return 0, 0, false
		}
		n := cfg.batch
		if done+n > total {
			n = total - done
		}
		s := next
		next += uint64(n)
		return s, n, true
	}
	var wg sync.WaitGroup
	for w := 0; w < *workers; w++ {
		wg.Add(1)
		go func() {
			defer wg.Done()
			for {
				from, n, ok := take()
				if !ok {
					return
				}
				// thorough: every fourth batch goes to the auto-yield worker
				// (statement-granular preemption, ~20x the events per run);
				// quick: the first quarter of every eighth batch
				auto := cfg.auto && ((from-first)/uint64(cfg.batch))%4 == 3
				if *tier != "thorough" {
					auto = cfg.auto && ((from-first)/uint64(cfg.batch))%8 == 7
					if auto && n > cfg.batch/4 {
						n = cfg.batch / 4
					}
				}
				// a tainted run ends its process; continue after it
				for n > 0 {
					args := []string{"-prop", *prop, "-tier", *tier, "-from", strconv.FormatUint(from, 10), "-count", strconv.Itoa(n)}
					if os.Getenv("VERIF_SELFCHECK") != "" {
						args = append(args, "-selfcheck")
					}
					wcfg := cfg
					wcfg.autoBin = auto
					results, inf, exit := runWorker(wcfg, args...)
					mu.Lock()
					infra = append(infra, inf...)
					for _, r := range results {
						r := r
						a.add(*prop, r, from, auto, func() *run.Spec { return run.GenerateFor(*prop, r.Seed, *tier, auto) })
					}
					mu.Unlock()
					doneHere := len(results)
					if exit == 3 && doneHere > 0 {
						from += uint64(doneHere)
						n -= doneHere
						continue
					}
					if exit != 0 && doneHere < n {
						// infrastructure failure: skip the run that killed the worker
						from += uint64(doneHere) + 1
						n -= doneHere + 1
						continue
					}
					break
				}
			}
		}()
	}
	wg.Wait()
	nextMu.Lock()
	a.seedsHi = next - 1
	nextMu.Unlock()
	exploreWall := time.Since(start).Seconds()

	// ---- confirm, minimise, classify ----
	known := loadKnown()
	type outcome struct {
		key      string
		v        run.Violation
		replay   string
		known    *finding
		seed     uint64
		reproduc bool
	}
	var outcomes []outcome
	seen := map[string]bool{}
	sort.SliceStable(a.violations, func(i, j int) bool { return a.violations[i].res.Seed < a.violations[j].res.Seed })
	unconfirmed := 0
	for _, h := range a.violations {
		k := h.v.Class + "|" + h.v.Key
		if seen[k] {
			continue
		}
		if len(seen) >= 8 {
			break
		}
		seen[k] = true
		cfg := cfg
		cfg.autoBin = h.auto
		spec := run.GenerateFor(*prop, h.res.Seed, *tier, h.auto)
		spec.ColdStart = h.res.ColdStart
		spec.Switches = h.res.Switches
		if spec.Switches == nil {
			spec.Switches = nonNilSwitches()
		}
		got, res := confirm(cfg, spec, h.v)
		if got == nil {
			// Not reproducible alone: does it depend on process-wide state
			// left behind by earlier runs of the same worker process (state
			// the reset hook does not know about - itself a matter of
			// "whatever any other expression in the process has evaluated
			// before")? Then the replay unit is the batch prefix.
			if bf, bv := confirmBatch(cfg, h.batchFrom, h.res.Seed, h.v); bv != nil {
				kh := sha256.Sum256([]byte(bv.Key))
				path := filepath.Join(*verif, "replays", fmt.Sprintf("%s-%d-%s-%s-batch.json", *prop, h.res.Seed, sanitize(bv.Class), hex.EncodeToString(kh[:3])))
				os.MkdirAll(filepath.Dir(path), 0o755)
				bf.Expect = &run.Expect{Class: bv.Class, Key: bv.Key}
				b, _ := json.MarshalIndent(bf, "", " ")
				os.WriteFile(path, b, 0o644)
				o := outcome{key: k, v: *bv, replay: path, seed: h.res.Seed, reproduc: true}
				o.known = known.match(*bv)
				outcomes = append(outcomes, o)
				continue
			}
			unconfirmed++
			fmt.Printf("UNCONFIRMED property=%s class=%s key=%q seed=%d: did not reproduce alone in a fresh process (not reported)\n", *prop, h.v.Class, h.v.Key, h.res.Seed)
			continue
		}
		if *prop == "C06" && got.Class == "isolation" {
			// Is it the schedule, or does the same call already differ from
			// its reference when the tasks run one after the other? The
			// latter is history dependence: C05's matter, reported there.
			seq := cloneSpec(spec)
			seq.Switches = nonNilSwitches()
			if sres, _ := runSpec(cfg, seq); sameViolation(sres, *got, false) != nil {
				a.confounded++
				fmt.Printf("CONFOUNDED property=C06 class=isolation key=%q seed=%d: the outcome also differs from the reference when the tasks run sequentially (history dependence, decided by C05); not reported under C06\n", got.Key, h.res.Seed)
				continue
			}
		}
		if !*noMin {
			spec, got, res = minimise(cfg, spec, *got, res)
		}
		spec.Expect = &run.Expect{Class: got.Class, Key: got.Key, EventHash: res.EventHash}
		kh := sha256.Sum256([]byte(got.Key))
		path := filepath.Join(*verif, "replays", fmt.Sprintf("%s-%d-%s-%s.json", *prop, h.res.Seed, sanitize(got.Class), hex.EncodeToString(kh[:3])))
		os.MkdirAll(filepath.Dir(path), 0o755)
		os.WriteFile(path, run.MarshalSpec(spec), 0o644)
		o := outcome{key: k, v: *got, replay: path, seed: h.res.Seed, reproduc: true}
		o.known = known.match(*got)
		outcomes = append(outcomes, o)
	}

	if *prop == "C05" {
		for _, cf := range a.cross.crossCheck(cfg, 4) {
			o := outcome{key: cf.v.Class + "|" + cf.v.Key, v: cf.v, replay: cf.replay, seed: cf.seed, reproduc: true}
			o.known = known.match(cf.v)
			outcomes = append(outcomes, o)
			seen[o.key] = true
		}
	}

	// ---- report ----
	exit := 0
	observed := map[string]bool{}
	for _, o := range outcomes {
		if o.known != nil {
			observed[o.known.Class+"|"+o.known.Key] = true
			continue
		}
		fmt.Printf("VIOLATION property=%s replay=%s\n", *prop, o.replay)
		fmt.Printf("  class=%s oracle=%s key=%q seed=%d task=%d op=%d\n  %s\n", o.v.Class, o.v.Oracle, o.v.Key, o.seed, o.v.Task, o.v.Op,
			strings.ReplaceAll(clip(o.v.Detail, 1500), "\n", "\n  "))
		exit = 1
	}
	for _, f := range known.Findings {
		if f.Property != *prop {
			continue
		}
		state := "not reached in this run"
		if observed[f.Class+"|"+f.Key] {
			state = "observed in this run"
		}
		fmt.Printf("KNOWN-FINDING: property=%s class=%s key=%q %s (%s)\n", *prop, f.Class, f.Key, f.What, state)
	}
	if len(infra) > 0 || len(a.tainted) > 0 || len(a.harnessRaces) > 0 || len(a.selfcheckMismatches) > 0 {
		for _, s := range infra {
			fmt.Println("INFRA:", clip(s, 600))
		}
		for _, s := range a.tainted {
			fmt.Println("INFRA: tainted run:", s)
		}
		for _, s := range a.harnessRaces {
			fmt.Println("INFRA: harness race:", clip(s, 300))
		}
		for _, s := range a.selfcheckMismatches {
			fmt.Println("INFRA: replay of recorded schedule diverged:", s)
		}
		if exit == 0 {
			exit = 2
		}
	}
	if a.runs == 0 && exit == 0 {
		fmt.Println("INFRA: no run was executed")
		exit = 2
	}

	// ---- evidence ----
	wall := time.Since(start).Seconds()
	evals := a.runs
	if *prop == "C05" || *prop == "C07" {
		evals = a.ops
	}
	cov := map[string]interface{}{
		"evaluations":          evals,
		"distinct_nontrivial":  len(a.nontrivial),
		"rule":                 cfg.rule,
		"samples":              a.samples,
		"runs":                 a.runs,
		"operations":           a.ops,
		"runs_per_hour":        int(float64(a.runs) / exploreWall * 3600),
		"seeds":                map[string]interface{}{"base": base, "first_run_seed": a.seedsLo, "last_run_seed": a.seedsHi},
		"sim_steps":            a.events,
		"sim_seconds":          a.simSeconds,
		"switches":             a.switches,
		"window_preemptions":   a.windowSw,
		"faults_fired":         a.faults,
		"probes":               a.probes,
		"schedules_distinct":   len(a.schedSigs),
		"event_logs_distinct":  len(a.hashes),
		"race_reports":         a.raceReports,
		"linearizable":         a.linearized,
		"inconclusive":         a.inconclusive,
		"unconfirmed":          unconfirmed,
		"skipped_confounded":   a.confounded,
		"auto_yield_runs_abandoned_at_event_budget": a.autoBudget,
		"foreign_observations": a.foreign,
		"kinds":                a.kinds,
		"strategies":           a.strategies,
		"tasks_per_run":        a.tasksHist,
		"families":             a.families,
		"node_types_evaluated": a.nodeTypes,
		"functions_called":     a.funcs,
		"node_types_never":     missing(allNodeTypes, a.nodeTypes),
		"builtins_never":       missing(allBuiltins, a.funcs),
		"workers":              *workers,
		"auto_yield_runs":      a.autoRuns,
		"auto_yield_worker":    map[bool]string{true: "built and used", false: "not used (no auto mode for this check, or it could not be built against this tree)"}[cfg.auto],
		"explore_wall_s":       exploreWall,
		"real_components":      []string{"jsonata (Compile, Eval, EvalBytes, registries, evaluator, callables)", "jparse", "jlib", "jlib/jxpath", "jtypes", "Go runtime maps/reflect/encoding/json/regexp"},
		"stubbed_components":   stubs(cfg),
		"toolchain":            toolchain(cfg),
		"violations_distinct":  len(seen),
	}
	ev := map[string]interface{}{
		"property_id": *prop, "tier": *tier, "seed": int64(base), "level": "exploration", "coverage": cov, "wall_s": wall,
		"violations": len(outcomes),
		"assumptions": []string{
			"interleavings are explored at yield-point granularity (hook sites in /repo, tag verif); data races inside a segment are left to the race detector",
			"Go map iteration order is not under the simulator's control; workloads keep at most one non-literal member wherever evaluation order follows a Go map",
			"a clean batch is evidence, not proof (seeded sampling, not enumeration)",
		},
	}
	b, _ := json.MarshalIndent(ev, "", " ")
	os.MkdirAll(filepath.Join(*verif, "evidence"), 0o755)
	os.WriteFile(filepath.Join(*verif, "evidence", *prop+".json"), b, 0o644)
	fmt.Printf("check %s %s: %d runs, %d operations, %d distinct non-trivial, %d race reports, %d violations (%d known), exit %d, %.1fs\n",
		*prop, *tier, a.runs, a.ops, len(a.nontrivial), a.raceReports, len(outcomes), len(observed), exit, wall)
	os.RemoveAll(scratch)
	return exit
}

// The complete lists are only used to REPORT reach (which node types and
// built-ins a run never visited); no oracle depends on them.
var allNodeTypes = []string{"StringNode", "NumberNode", "BooleanNode", "NullNode", "RegexNode", "VariableNode", "NameNode", "PathNode",
	"NegationNode", "RangeNode", "ArrayNode", "ObjectNode", "BlockNode", "ConditionalNode", "AssignmentNode", "WildcardNode",
	"DescendentNode", "GroupNode", "PredicateNode", "SortNode", "LambdaNode", "TypedLambdaNode", "ObjectTransformationNode",
	"PartialNode", "FunctionCallNode", "FunctionApplicationNode", "NumericOperatorNode", "ComparisonOperatorNode",
	"BooleanOperatorNode", "StringConcatenationNode"}

var allBuiltins = []string{"string", "length", "substring", "substringBefore", "substringAfter", "uppercase", "lowercase", "pad", "trim",
	"contains", "split", "join", "match", "replace", "formatNumber", "formatBase", "base64encode", "base64decode", "decodeUrl",
	"decodeUrlComponent", "encodeUrl", "encodeUrlComponent", "number", "abs", "floor", "ceil", "round", "power", "sqrt", "random",
	"sum", "max", "min", "average", "boolean", "not", "exists", "distinct", "count", "reverse", "sort", "shuffle", "zip", "append",
	"map", "filter", "reduce", "single", "each", "sift", "keys", "lookup", "spread", "merge", "fromMillis", "toMillis", "type",
	"error", "millis", "now"}

func missing(all []string, seen map[string]int) []string {
	out := []string{}
	for _, n := range all {
		if seen[n] == 0 {
			out = append(out, n)
		}
	}
	return out
}

func stubs(cfg propCfg) []string {
	s := []string{"goroutine scheduling choice (cooperative scheduler over real goroutines)", "extension bodies ($xid,$xctx,$xfault,$xundef,$tick are harness functions)", "jsonata-server and jsonata-test are not run (their use of the library is reproduced by the per-task-Expr and shared-document workloads)"}
	if cfg.engine == "B" {
		s = append(s, "wall clock (testing/synctest fake clock underneath time.Now)")
	} else {
		s = append(s, "wall clock is real and unused by the oracles of this check")
	}
	return s
}

func toolchain(cfg propCfg) string {
	if cfg.engine == "B" {
		return "go1.26.8 test -c -race -tags verif (testing/synctest)"
	}
	if cfg.race {
		return "go1.23.5 build -race -tags verif"
	}
	return "go1.23.5 build -tags verif"
}

func sanitize(s string) string {
	var b strings.Builder
	for _, r := range s {
		if (r >= 'a' && r <= 'z') || (r >= 'A' && r <= 'Z') || (r >= '0' && r <= '9') || r == '-' {
			b.WriteRune(r)
		} else {
			b.WriteByte('_')
		}
	}
	return b.String()
}

// ---- known findings ------------------------------------------------------------

func loadKnown() *knownFile {
	var k knownFile
	b, err := os.ReadFile(filepath.Join(*verif, "known_findings.json"))
	if err == nil {
		json.Unmarshal(b, &k)
	}
	return &k
}

func (k *knownFile) match(v run.Violation) *finding {
	for i := range k.Findings {
		f := &k.Findings[i]
		if f.Property == v.Property && f.Class == v.Class && f.Key == v.Key {
			return f
		}
	}
	return nil
}

// ---- replay -------------------------------------------------------------------

func runSpec(cfg propCfg, spec *run.Spec) (*run.Result, []string) {
	raceMu.Lock()
	raceSeq++
	n := raceSeq
	raceMu.Unlock()
	p := filepath.Join(scratch, fmt.Sprintf("spec%d.json", n))
	os.WriteFile(p, run.MarshalSpec(spec), 0o644)
	defer os.Remove(p)
	cfg.autoBin = spec.Auto
	results, infra, _ := runWorker(cfg, "-replay", p)
	if len(results) == 0 {
		return nil, infra
	}
	return results[0], infra
}

// sameViolation finds in res a violation of the same class (and key).
func sameViolation(res *run.Result, want run.Violation, needKey bool) *run.Violation {
	if res == nil {
		return nil
	}
	for i := range res.Violations {
		v := &res.Violations[i]
		if v.Property == want.Property && v.Class == want.Class && (!needKey || v.Key == want.Key) {
			return v
		}
	}
	return nil
}

// confirm re-executes the run alone in a fresh process from its explicit
// trace; a violation is only reported when it reproduces there.
func confirm(cfg propCfg, spec *run.Spec, want run.Violation) (*run.Violation, *run.Result) {
	for try := 0; try < 2; try++ {
		res, _ := runSpec(cfg, spec)
		if v := sameViolation(res, want, true); v != nil {
			return v, res
		}
	}
	return nil, nil
}

func doReplay(cfg propCfg) int {
	b, err := os.ReadFile(*replayF)
	if err != nil {
		fmt.Fprintln(os.Stderr, err)
		return 2
	}
	if bytes.Contains(b, []byte(`"batch": true`)) || bytes.Contains(b, []byte(`"batch":true`)) {
		return replayBatch(cfg, b)
	}
	if bytes.Contains(b, []byte(`"cross": true`)) || bytes.Contains(b, []byte(`"cross":true`)) {
		return replayCross(cfg, b)
	}
	var spec run.Spec
	if err := json.Unmarshal(b, &spec); err != nil {
		fmt.Fprintln(os.Stderr, "bad replay file:", err)
		return 2
	}
	if spec.Switches == nil {
		spec.Switches = nonNilSwitches()
	}
	res, infra := runSpec(cfg, &spec)
	defer os.RemoveAll(scratch)
	if res == nil {
		for _, s := range infra {
			fmt.Println("INFRA:", clip(s, 800))
		}
		return 2
	}
	if len(res.Violations) == 0 {
		fmt.Printf("NOT-REPRODUCED property=%s replay=%s (no oracle fired; event log %s)\n", *prop, *replayF, res.EventHash)
		return 0
	}
	for _, v := range res.Violations {
		fmt.Printf("VIOLATION property=%s replay=%s\n  class=%s oracle=%s key=%q task=%d op=%d\n  %s\n", v.Property, *replayF, v.Class, v.Oracle, v.Key, v.Task, v.Op,
			strings.ReplaceAll(clip(v.Detail, 1500), "\n", "\n  "))
	}
	if spec.Expect != nil {
		same := "same"
		if spec.Expect.EventHash != res.EventHash {
			same = "DIFFERENT"
		}
		fmt.Printf("expected class=%s key=%q; event log hash %s (%s as recorded)\n", spec.Expect.Class, spec.Expect.Key, res.EventHash, same)
	}
	return 1
}
