package main

import (
	"flag"
	"fmt"
	"os"
	"os/exec"
	"path/filepath"
	"strconv"
	"strings"
	"sync"

	"verif/sim/run"
)

var selftestF = flag.Bool("selftest", false, "determinism self-test")

// doSelftest proves determinism on a sample: for every property, S seeds are
// executed in P separate processes at GOMAXPROCS 1, 4 and 16; all event-log
// hashes of one seed must coincide, and every run must also reproduce its
// own hash when re-executed from its recorded switch list (-selfcheck).
func doSelftest() int {
	seeds := 40
	if s := os.Getenv("VERIF_SELFTEST_SEEDS"); s != "" {
		if v, err := strconv.Atoi(s); err == nil {
			seeds = v
		}
	}
	bad := 0
	total := 0
	type variant struct {
		prop string
		auto bool
	}
	variants := []variant{{"C05", false}, {"C06", false}, {"C07", false}, {"C19", false}, {"C20", false},
		{"C05", true}, {"C06", true}, {"C07", true}, {"C19", true}, {"C20", true}} // auto: the auto-yield workers
	for _, vr := range variants {
		p := vr.prop
		cfg := cfgs[p]
		cfg.autoBin = vr.auto
		seeds := seeds
		if vr.auto {
			seeds = seeds / 2
			p = vr.prop
		}
		hashes := map[uint64]map[string]bool{}
		var mu sync.Mutex
		var wg sync.WaitGroup
		var infraAll []string
		for _, procs := range []string{"1", "4", "16"} {
			for rep := 0; rep < 3; rep++ {
				wg.Add(1)
				go func(procs string) {
					defer wg.Done()
					args := []string{"-prop", p, "-tier", "quick", "-from", "7000001", "-count", strconv.Itoa(seeds), "-selfcheck"}
					results, infra, _ := runWorkerEnv(cfg, []string{"GOMAXPROCS=" + procs}, args...)
					mu.Lock()
					infraAll = append(infraAll, infra...)
					for _, r := range results {
						if hashes[r.Seed] == nil {
							hashes[r.Seed] = map[string]bool{}
						}
						hashes[r.Seed][r.EventHash] = true
						if strings.Contains(r.Note, "SELFCHECK-MISMATCH") {
							hashes[r.Seed]["selfcheck-mismatch"] = true
						}
					}
					mu.Unlock()
				}(procs)
			}
		}
		wg.Wait()
		n := 0
		for seed, hs := range hashes {
			n++
			if len(hs) != 1 {
				bad++
				fmt.Printf("SELFTEST: property %s seed %d: %d different event logs across processes\n", p, seed, len(hs))
			}
		}
		total += n
		if n < seeds {
			fmt.Printf("SELFTEST: property %s: only %d of %d seeds completed\n", p, n, seeds)
			for _, s := range infraAll {
				fmt.Println("  INFRA:", clip(s, 400))
			}
			bad++
		}
		label := p
		if vr.auto {
			label += "+auto"
		}
		fmt.Printf("selftest %s: %d seeds x 9 processes (GOMAXPROCS 1/4/16 x 3), identical event logs: %v\n", label, n, bad == 0)
	}
	// the harness iterates only over slices and sorted keys where order
	// matters; list the remaining map iterations for review
	if out, err := exec.Command("grep", "-rn", "--include=*.go", "--exclude=selftest.go", `\.Range(func\|sync\.Map`, filepath.Join(*verif, "sim")).Output(); err == nil && len(out) > 0 {
		fmt.Printf("SELFTEST: sync.Map.Range in the harness:\n%s", out)
		bad++
	}
	os.RemoveAll(scratch)
	if bad > 0 {
		return 2
	}
	fmt.Printf("selftest ok: %d seeds\n", total)
	return 0
}

func runWorkerEnv(cfg propCfg, env []string, args ...string) ([]*run.Result, []string, int) {
	return runWorkerWith(cfg, env, args...)
}
