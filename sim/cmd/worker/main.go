// Command worker executes simulated runs of engine A in one process and
// emits one JSON line per run. The driver starts many workers, attributes
// race reports, reproduces and minimises violations.
//
//	worker -prop C06 -tier quick -from 100 -count 25 [-selfcheck] [-out file]
//	worker -replay spec.json
//	worker -genspec -prop C06 -from 5        (print the generated spec)
package main

import (
	"flag"
	"os"
	"time"

	"verif/sim/run"
	"verif/sim/wrk"
)

func main() {
	flag.Parse()
	// the library must render UTC whatever the process's local zone is
	time.Local = time.FixedZone("SIM", 5*3600+30*60)
	run.FixedClock = true
	wrk.StartWatchdog(20 * time.Second)
	rl := wrk.OpenRaceLog()
	os.Exit(wrk.Loop("A", func(spec *run.Spec) *run.Result {
		return wrk.RunOne(spec, rl, run.Options{})
	}))
}
