// Package workerb is the engine-B worker: the same controller/tasks design
// as engine A, run inside one testing/synctest bubble per simulated run so
// that the one time.Now() of the library reads a simulated clock. It exists
// only as a test binary (synctest needs a *testing.T); build it with
//
//	go1.26.8 test -c -race -tags verif -o workerb.test ./cmd/workerb
package workerb
