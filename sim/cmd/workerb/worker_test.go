//go:build go1.25

package workerb

import (
	"flag"
	"fmt"
	"os"
	"testing"
	"testing/synctest"
	"time"

	"verif/sim/run"
	"verif/sim/wrk"
)

func TestMain(m *testing.M) {
	flag.Parse()
	// the library must render UTC whatever the process's local zone is
	time.Local = time.FixedZone("SIM", 5*3600+30*60)
	// the real-time watchdog lives outside every bubble
	wrk.StartWatchdog(30 * time.Second)
	os.Exit(m.Run())
}

// TestWorker is the worker's main. The pass/fail status of the subtests is
// ignored by the driver (the testing package fails a test during which the
// race detector reported something); results travel as JSON lines.
func TestWorker(t *testing.T) {
	rl := wrk.OpenRaceLog()
	n := 0
	code := wrk.Loop("B", func(spec *run.Spec) *run.Result {
		n++
		var res *run.Result
		t.Run(fmt.Sprintf("run%d", n), func(t *testing.T) {
			defer func() {
				// a tainted run leaves parked tasks behind: synctest panics
				// with "deadlock: all goroutines in bubble are blocked"
				if p := recover(); p != nil && res == nil {
					res = &run.Result{Seed: spec.Seed, Property: spec.Property, Kind: spec.Kind, Tainted: true,
						Note: fmt.Sprint("bubble panic: ", p)}
				}
			}()
			synctest.Test(t, func(t *testing.T) {
				start := time.Now()
				opt := run.Options{
					Now:     func() int64 { return int64(time.Since(start)) },
					Advance: func(to int64) {
						if d := to - int64(time.Since(start)); d > 0 {
							time.Sleep(time.Duration(d))
						}
					},
					EpochMs: start.UnixMilli(),
				}
				res = wrk.RunOne(spec, rl, opt)
			})
		})
		return res
	})
	if code != 0 {
		os.Exit(code)
	}
}
