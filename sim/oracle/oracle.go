// Package oracle holds the run-independent parts of the oracles: canonical
// outcomes, syntax-tree dumps and document equality.
package oracle

import (
	"encoding/json"
	"fmt"
	"math"
	"reflect"
	"regexp"
	"sort"
	"strconv"
	"strings"

	jsonata "github.com/blues/jsonata-go"
	"github.com/blues/jsonata-go/jparse"
)

// Outcome canonicalises the result of Eval: JSON with sorted keys |
// "undefined" | "error:<kind>" . The error kind is the Go type plus the
// fields that C05 calls "the same kind" (EvalError.Type, argument error
// positions) - not the function name or message.
func Outcome(v interface{}, err error) string {
	if err != nil {
		return "error:" + ErrKind(err)
	}
	var b strings.Builder
	canon(&b, reflect.ValueOf(v), 0)
	return b.String()
}

// ErrKind returns the kind of an evaluation error.
func ErrKind(err error) string {
	if err == jsonata.ErrUndefined {
		return "undefined"
	}
	switch e := err.(type) {
	case *jsonata.EvalError:
		return fmt.Sprintf("EvalError(%d)", e.Type)
	case jsonata.EvalError:
		return fmt.Sprintf("EvalError(%d)", e.Type)
	case *jsonata.ArgCountError:
		return fmt.Sprintf("ArgCountError(exp=%d,got=%d)", e.Expected, e.Received)
	case *jsonata.ArgTypeError:
		return fmt.Sprintf("ArgTypeError(which=%d)", e.Which)
	case *jparse.Error:
		return fmt.Sprintf("jparse.Error(%d)", e.Type)
	}
	return fmt.Sprintf("%T", err)
}

// Rec is the Go struct some documents hold (by pointer, by value and in a
// slice): callers may hand Eval any Go value, not only decoded JSON.
type Rec struct {
	P    string
	Q    float64
	Tags []string
	In   map[string]interface{}
	Sub  *Rec
	hid  int // an unexported field: not a member of the JSONata object
}

var recType = reflect.TypeOf(Rec{})

func canon(b *strings.Builder, v reflect.Value, depth int) {
	if depth > 64 {
		b.WriteString(`"<deep>"`)
		return
	}
	if !v.IsValid() {
		b.WriteString("null")
		return
	}
	switch v.Kind() {
	case reflect.Interface, reflect.Ptr:
		if v.IsNil() {
			b.WriteString("null")
			return
		}
		if v.Kind() == reflect.Ptr && v.Elem().Kind() == reflect.Struct && v.Elem().Type() != recType {
			// callables and other opaque values
			fmt.Fprintf(b, `"<%s>"`, v.Type().String())
			return
		}
		canon(b, v.Elem(), depth+1)
	case reflect.Bool:
		b.WriteString(strconv.FormatBool(v.Bool()))
	case reflect.Int, reflect.Int8, reflect.Int16, reflect.Int32, reflect.Int64:
		b.WriteString(strconv.FormatInt(v.Int(), 10))
	case reflect.Uint, reflect.Uint8, reflect.Uint16, reflect.Uint32, reflect.Uint64:
		b.WriteString(strconv.FormatUint(v.Uint(), 10))
	case reflect.Float32, reflect.Float64:
		f := v.Float()
		switch {
		case math.IsNaN(f):
			b.WriteString(`"<NaN>"`)
		case math.IsInf(f, 0):
			b.WriteString(`"<Inf>"`)
		default:
			b.WriteString(strconv.FormatFloat(f, 'g', -1, 64))
		}
	case reflect.String:
		b.WriteString(strconv.Quote(v.String()))
	case reflect.Slice, reflect.Array:
		if v.Kind() == reflect.Slice && v.Type().Elem().Kind() == reflect.Uint8 {
			b.WriteString(strconv.Quote(string(v.Bytes())))
			return
		}
		b.WriteByte('[')
		for i := 0; i < v.Len(); i++ {
			if i > 0 {
				b.WriteByte(',')
			}
			canon(b, v.Index(i), depth+1)
		}
		b.WriteByte(']')
	case reflect.Map:
		keys := v.MapKeys()
		ks := make([]string, len(keys))
		for i, k := range keys {
			ks[i] = fmt.Sprint(k.Interface())
		}
		idx := make([]int, len(keys))
		for i := range idx {
			idx[i] = i
		}
		sort.Slice(idx, func(a, c int) bool { return ks[idx[a]] < ks[idx[c]] })
		b.WriteByte('{')
		for n, i := range idx {
			if n > 0 {
				b.WriteByte(',')
			}
			b.WriteString(strconv.Quote(ks[i]))
			b.WriteByte(':')
			canon(b, v.MapIndex(keys[i]), depth+1)
		}
		b.WriteByte('}')
	case reflect.Struct:
		if v.Type() == recType {
			b.WriteString("{")
			for i := 0; i < v.NumField(); i++ {
				if v.Type().Field(i).PkgPath != "" { // unexported
					continue
				}
				if i > 0 {
					b.WriteByte(',')
				}
				b.WriteString(strconv.Quote(v.Type().Field(i).Name) + ":")
				canon(b, v.Field(i), depth+1)
			}
			b.WriteString("}")
			return
		}
		fmt.Fprintf(b, `"<%s>"`, v.Type().String())
	default:
		fmt.Fprintf(b, `"<%s>"`, v.Kind().String())
	}
}

// BytesOutcome canonicalises the result of EvalBytes so that it is
// comparable with Outcome of Eval on the same triple.
func BytesOutcome(out []byte, err error) string {
	if err != nil {
		return "error:" + ErrKind(err)
	}
	var v interface{}
	if e := json.Unmarshal(out, &v); e != nil {
		return "badjson:" + string(out)
	}
	return Outcome(v, nil)
}

// ParseDoc decodes a JSON document exactly as callers of Eval do.
func ParseDoc(s string) interface{} {
	var v interface{}
	if err := json.Unmarshal([]byte(s), &v); err != nil {
		panic(fmt.Sprintf("bad document %q: %v", s, err))
	}
	return v
}

// DocEqual reports whether the document still equals its pristine copy.
func DocEqual(doc, pristine interface{}) bool { return reflect.DeepEqual(doc, pristine) }

// Canon returns the canonical JSON of a value (for messages).
func Canon(v interface{}) string {
	var b strings.Builder
	canon(&b, reflect.ValueOf(v), 0)
	return b.String()
}

var typeRegexp = reflect.TypeOf((*regexp.Regexp)(nil))

// DumpAST returns a canonical reflective dump of a syntax tree. All node
// types of jparse have exported fields; regexps are dumped as their source.
func DumpAST(n jparse.Node) string {
	var b strings.Builder
	dump(&b, reflect.ValueOf(n), 0)
	return b.String()
}

func dump(b *strings.Builder, v reflect.Value, depth int) {
	if depth > 200 {
		b.WriteString("<deep>")
		return
	}
	if !v.IsValid() {
		b.WriteString("nil")
		return
	}
	if v.Type() == typeRegexp {
		if v.IsNil() {
			b.WriteString("re:nil")
		} else {
			b.WriteString("re:" + strconv.Quote(v.Interface().(*regexp.Regexp).String()))
		}
		return
	}
	switch v.Kind() {
	case reflect.Interface, reflect.Ptr:
		if v.IsNil() {
			b.WriteString("nil")
			return
		}
		dump(b, v.Elem(), depth+1)
	case reflect.Struct:
		b.WriteString(v.Type().Name())
		b.WriteByte('{')
		for i := 0; i < v.NumField(); i++ {
			f := v.Type().Field(i)
			if f.PkgPath != "" { // unexported
				continue
			}
			b.WriteString(f.Name)
			b.WriteByte(':')
			dump(b, v.Field(i), depth+1)
			b.WriteByte(' ')
		}
		b.WriteByte('}')
	case reflect.Slice, reflect.Array:
		b.WriteByte('[')
		for i := 0; i < v.Len(); i++ {
			dump(b, v.Index(i), depth+1)
			b.WriteByte(' ')
		}
		b.WriteByte(']')
	case reflect.String:
		b.WriteString(strconv.Quote(v.String()))
	case reflect.Bool:
		b.WriteString(strconv.FormatBool(v.Bool()))
	case reflect.Int, reflect.Int8, reflect.Int16, reflect.Int32, reflect.Int64:
		b.WriteString(strconv.FormatInt(v.Int(), 10))
	case reflect.Uint, reflect.Uint8, reflect.Uint16, reflect.Uint32, reflect.Uint64:
		b.WriteString(strconv.FormatUint(v.Uint(), 10))
	case reflect.Float32, reflect.Float64:
		b.WriteString(strconv.FormatFloat(v.Float(), 'g', -1, 64))
	case reflect.Map:
		b.WriteString("map(" + strconv.Itoa(v.Len()) + ")")
	default:
		b.WriteString("<" + v.Kind().String() + ">")
	}
}
